"""Reviewed tables for the Input implementations (rules SPAN-PROV, STREAM)."""

SPAN_PROV = {
    '&[T; N]::slice': ['index(arg1, Range{start: arg2.start, end: arg2.end})'],
    '&[T; N]::slice_from': ['index(arg1, RangeFrom{start: arg2.start})'],
    '&[T; N]::span': ['Range{start: arg2.start, end: arg2.end}'],
    '&[T; N]::span_from': ['Range{start: arg2.start, end: len(arg1)}'],
    '&[T]::slice': ['index(arg1, Range{start: arg2.start, end: arg2.end})'],
    '&[T]::slice_from': ['index(arg1, RangeFrom{start: arg2.start})'],
    '&[T]::span': ['Range{start: arg2.start, end: arg2.end}'],
    '&[T]::span_from': ['Range{start: arg2.start, end: len(arg1)}'],
    '&str::slice': ['index(arg1, Range{start: arg2.start, end: arg2.end})'],
    '&str::slice_from': ['index(arg1, RangeFrom{start: arg2.start})'],
    '&str::span': ['Range{start: arg2.start, end: arg2.end}'],
    '&str::span_from': ['Range{start: arg2.start, end: len(arg1)}'],
    '&text::unicode::Graphemes::slice': ['new(index(as_str(arg1), Range{start: arg2.start, end: arg2.end}))'],
    '&text::unicode::Graphemes::slice_from': ['new(index(as_str(arg1), RangeFrom{start: arg2.start}))'],
    '&text::unicode::Graphemes::span': ['Range{start: arg2.start, end: arg2.end}'],
    '&text::unicode::Graphemes::span_from': ['Range{start: arg2.start, end: len(as_str(arg1))}'],
    'bytes::Bytes::slice': ['slice(arg1, Range{start: arg2.start, end: arg2.end})'],
    'bytes::Bytes::slice_from': ['slice(arg1, RangeFrom{start: arg2.start})'],
    'bytes::Bytes::span': ['Range{start: arg2.start, end: arg2.end}'],
    'bytes::Bytes::span_from': ['Range{start: arg2.start, end: len(arg1)}'],
    'input::IoInput::span': ['Range{start: arg2.start, end: arg2.end}'],
    'input::MappedInput::slice': ['slice(arg1.0, Range{start: arg2.start.0, end: arg2.end.0})'],
    'input::MappedInput::slice_from': ['slice_from(arg1.0, RangeFrom{start: arg2.start.0})'],
    'input::MappedInput::span': ['new(context(arg1.2), Range{start: end(arg1.2), end: end(arg1.2)})', 'new(context(arg1.2), Range{start: start(call(arg1.1, tuple{0: next_maybe(arg1.0, arg2.start.0).0}).1), end: start(call(arg1.1, tuple{0: next_maybe(arg1.0, arg2.start.0).0}).1)})', 'new(context(arg1.2), Range{start: start(call(arg1.1, tuple{0: next_maybe(arg1.0, arg2.start.0).0}).1), end: unwrap_or_else(arg2.end.1, closure)})'],
    'input::MappedInput::span_from': ['new(context(arg1.2), Range{start: unwrap_or_else(map(next_maybe(arg1.0, arg2.start.0), closure), closure), end: end(arg1.2)})'],
    'input::MappedSpan::slice': ['slice(arg1.0, arg2)'],
    'input::MappedSpan::slice_from': ['slice_from(arg1.0, arg2)'],
    'input::MappedSpan::span': ['call(arg1.1, tuple{0: span(arg1.0, arg2)})'],
    'input::MappedSpan::span_from': ['call(arg1.1, tuple{0: span_from(arg1.0, arg2)})'],
    'input::WithContext::slice': ['slice(arg1.0, arg2)'],
    'input::WithContext::slice_from': ['slice_from(arg1.0, arg2)'],
    'input::WithContext::span': ['new(arg1.1, Range{start: start(span(arg1.0, arg2)), end: end(span(arg1.0, arg2))})'],
    'input::WithContext::span_from': ['new(arg1.1, Range{start: start(span_from(arg1.0, arg2)), end: end(span_from(arg1.0, arg2))})'],
    'stream::IterInput::span': ['new(context(arg1), Range{start: end(arg1), end: end(arg1)})', 'new(context(arg1), Range{start: start(next(arg2.start.0).0.1), end: start(next(arg2.start.0).0.1)})', 'new(context(arg1), Range{start: start(next(arg2.start.0).0.1), end: unwrap_or_else(arg2.end.2, closure)})'],
    'stream::Stream::span': ['Range{start: arg2.start, end: arg2.end}'],
    'stream::Stream::span_from': ['Range{start: arg2.start, end: AddWithOverflow(len(arg1.tokens), len(arg1.iter)).0}'],
}

STREAM_ITER_USERS = {
    "stream::Stream[input::ValueInput]::next": {"mutborrow"},          # the refill
    "stream::Stream[input::ExactSizeInput]::span_from": {"read"},       # iter.len() through &self
    "stream::Stream::boxed": {"move"},                                   # re-wrap the iterator, nothing pulled
    "stream::Stream::exact_size_boxed": {"move"},
}

FEATURES = {"bytes::Bytes": "bytes", "input::IoInput": "std"}


def feature_of(key):
    for k, v in FEATURES.items():
        if key.startswith(k):
            return v
    return None

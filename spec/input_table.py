"""Reviewed tables for the Input implementations (rules SPAN-PROV, STREAM)."""

# normal form (engine/nf.py): one alternative-free term per value the body can return; Option plumbing, closures, delegation erased
SPAN_PROV = {'&[T; N]::slice': ['index(arg1, Range{start: arg2.start, end: arg2.end})'],
 '&[T; N]::slice_from': ['index(arg1, RangeFrom{start: arg2.start})'],
 '&[T; N]::span': ['Range{start: arg2.start, end: arg2.end}'],
 '&[T; N]::span_from': ['Range{start: arg2.start, end: len(arg1)}'],
 '&[T]::slice': ['index(arg1, Range{start: arg2.start, end: arg2.end})'],
 '&[T]::slice_from': ['index(arg1, RangeFrom{start: arg2.start})'],
 '&[T]::span': ['Range{start: arg2.start, end: arg2.end}'],
 '&[T]::span_from': ['Range{start: arg2.start, end: len(arg1)}'],
 '&str::slice': ['index(arg1, Range{start: arg2.start, end: arg2.end})'],
 '&str::slice_from': ['index(arg1, RangeFrom{start: arg2.start})'],
 '&str::span': ['Range{start: arg2.start, end: arg2.end}'],
 '&str::span_from': ['Range{start: arg2.start, end: len(arg1)}'],
 '&text::unicode::Graphemes::slice': ['index(arg1.inner, Range{start: arg2.start, end: arg2.end})'],
 '&text::unicode::Graphemes::slice_from': ['index(arg1.inner, RangeFrom{start: arg2.start})'],
 '&text::unicode::Graphemes::span': ['Range{start: arg2.start, end: arg2.end}'],
 '&text::unicode::Graphemes::span_from': ['Range{start: arg2.start, end: len(arg1.inner)}'],
 'bytes::Bytes::slice': ['slice(arg1, Range{start: arg2.start, end: arg2.end})'],
 'bytes::Bytes::slice_from': ['slice(arg1, RangeFrom{start: arg2.start})'],
 'bytes::Bytes::span': ['Range{start: arg2.start, end: arg2.end}'],
 'bytes::Bytes::span_from': ['Range{start: arg2.start, end: len(arg1)}'],
 'input::IoInput::span': ['Range{start: arg2.start, end: arg2.end}'],
 'input::MappedInput::slice': ['slice(arg1.0, Range{start: arg2.start.0, end: arg2.end.0})'],
 'input::MappedInput::slice_from': ['slice_from(arg1.0, RangeFrom{start: arg2.start.0})'],
 'input::MappedInput::span': ['new(context(arg1.2), Range{start: end(arg1.2), end: end(arg1.2)})',
                              'new(context(arg1.2), Range{start: start(call(arg1.1, tuple{0: next_maybe(arg1.0, arg2.start.0)}).1), end: arg2.end.1})',
                              'new(context(arg1.2), Range{start: start(call(arg1.1, tuple{0: next_maybe(arg1.0, arg2.start.0)}).1), end: end(arg1.2)})',
                              'new(context(arg1.2), Range{start: start(call(arg1.1, tuple{0: next_maybe(arg1.0, arg2.start.0)}).1), end: start(call(arg1.1, tuple{0: next_maybe(arg1.0, '
                              'arg2.start.0)}).1)})'],
 'input::MappedInput::span_from': ['new(context(arg1.2), Range{start: end(arg1.2), end: end(arg1.2)})',
                                   'new(context(arg1.2), Range{start: start(call(arg1.1, tuple{0: next_maybe(arg1.0, arg2.start.0)}).1), end: end(arg1.2)})'],
 'input::MappedSpan::slice': ['slice(arg1.0, arg2)'],
 'input::MappedSpan::slice_from': ['slice_from(arg1.0, arg2)'],
 'input::MappedSpan::span': ['call(arg1.1, tuple{0: span(arg1.0, arg2)})'],
 'input::MappedSpan::span_from': ['call(arg1.1, tuple{0: span_from(arg1.0, arg2)})'],
 'input::WithContext::slice': ['slice(arg1.0, arg2)'],
 'input::WithContext::slice_from': ['slice_from(arg1.0, arg2)'],
 'input::WithContext::span': ['new(arg1.1, Range{start: start(span(arg1.0, arg2)), end: end(span(arg1.0, arg2))})'],
 'input::WithContext::span_from': ['new(arg1.1, Range{start: start(span_from(arg1.0, arg2)), end: end(span_from(arg1.0, arg2))})'],
 'stream::IterInput::span': ['new(context(arg1), Range{start: end(arg1), end: end(arg1)})',
                             'new(context(arg1), Range{start: start(elem(arg2.start.0).1), end: arg2.end.2})',
                             'new(context(arg1), Range{start: start(elem(arg2.start.0).1), end: end(arg1)})',
                             'new(context(arg1), Range{start: start(elem(arg2.start.0).1), end: start(elem(arg2.start.0).1)})'],
 'stream::Stream::span': ['Range{start: arg2.start, end: arg2.end}'],
 'stream::Stream::span_from': ['Range{start: arg2.start, end: AddWithOverflow(len(arg1.tokens), len(arg1.iter)).0}']}

# What the concrete token reader of each input does to its cursor (rule READER-SIB, absolute part).  Reviewed against the source:
# index cursors advance by one; &str / Graphemes by the byte length of the item decoded AT the cursor; token-span inputs advance the
# inner cursor through the inner reader and record Some(END of the token's span) - the value Input::span later uses as the end.
READER_EFFECTS = {
    '&str': ['writes cursor <- Add+RangeFrom+chars+get_unchecked+len_utf8+next+unwrap_unchecked'],
    '&[T]': ['writes cursor <- Add+const'],
    '&[T; N]': ['writes cursor <- Add+const'],
    'input::MappedInput': ['writes cursor.1 <- Some+call+end+tuple', 'passes &mut cursor.0 to next*'],
    'input::MappedSpan': ['passes &mut cursor. to next*'],
    'input::WithContext': ['passes &mut cursor. to next*'],
    'input::IoInput': ['writes cursor <- Add+const'],
    'stream::Stream': ['writes cursor <- Add+const'],
    'stream::IterInput': ['writes cursor.1 <- Add+const', 'writes cursor.2 <- Some+end', 'passes &mut cursor.0 to next*'],
    '&text::unicode::Graphemes': ['writes cursor <- Add+RangeFrom+as_str+const+get_unchecked+graphemes+len+next+unwrap_unchecked'],
    'bytes::Bytes': ['writes cursor <- Add+const'],
}

# SPAN-IMPL: the Span trait implementations and span conversions (src/span.rs), reviewed: accessors return their own bound,
# constructors keep (start, end) in order, defaults are built from the accessors of the right bound.
SPAN_IMPL = {'(C, S)[span::Span]::context': 'arg1.0',
 '(C, S)[span::Span]::end': 'end(arg1.1)',
 '(C, S)[span::Span]::new': 'tuple{0: arg1, 1: new(tuple{}, arg2)}',
 '(C, S)[span::Span]::start': 'start(arg1.1)',
 'span::SimpleSpan::into_range': 'Range{start: arg1.start, end: arg1.end}',
 'span::SimpleSpan[span::Span]::context': 'arg1.context',
 'span::SimpleSpan[span::Span]::end': 'arg1.end',
 'span::SimpleSpan[span::Span]::new': 'SimpleSpan{start: arg2.start, end: arg2.end, context: arg1}',
 'span::SimpleSpan[span::Span]::start': 'arg1.start',
 'span::SimpleSpan[std::convert::From]::from': 'SimpleSpan{start: arg1.start, end: arg1.end, context: tuple{}}',
 'span::SimpleSpan[std::iter::IntoIterator]::into_iter': 'Range{start: arg1.start, end: arg1.end}',
 'span::Span::to_end': 'new(context(arg1), Range{start: end(arg1), end: end(arg1)})',
 'span::Span::union': 'new(context(arg1), Range{start: min(start(arg1), start(arg2)), end: max(end(arg1), end(arg2))})',
 'std::ops::Range[span::Span]::context': 'const ()',
 'std::ops::Range[span::Span]::end': 'arg1.end',
 'std::ops::Range[span::Span]::new': 'arg2',
 'std::ops::Range[span::Span]::start': 'arg1.start',
 'std::ops::Range[std::convert::From]::from': 'Range{start: arg1.start, end: arg1.end}'}

STREAM_ITER_USERS = {
    "stream::Stream[input::ValueInput]::next": {"mutborrow"},          # the refill
    "stream::Stream[input::ExactSizeInput]::span_from": {"read"},       # iter.len() through &self
    "stream::Stream::boxed": {"move"},                                   # re-wrap the iterator, nothing pulled
    "stream::Stream::exact_size_boxed": {"move"},
}

FEATURES = {"bytes::Bytes": "bytes", "input::IoInput": "std"}


def feature_of(key):
    for k, v in FEATURES.items():
        if key.startswith(k):
            return v
    return None

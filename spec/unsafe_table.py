"""UNSAFE-INV: reviewed inventory of functions that use a leak/duplication-capable operation
(MaybeUninit, assume_init*, ptr::read/write, mem::forget, ManuallyDrop, transmute, from_raw/into_raw,
*_unchecked, ContainerExactly's unsafe protocol).  qname -> one-line reason.
A function not listed here that uses such an operation is reported by rule UNSAFE-INV."""

ALLOW = {
    # --- partially initialised containers (path rule MAYBEUNINIT decides the holders)
    "std::mem::MaybeUninit[private::MaybeUninitExt]::uninit_array": "an array of MaybeUninit needs no initialisation",
    "std::mem::MaybeUninit[private::MaybeUninitExt]::array_assume_init": "reads [MaybeUninit<T>;N] as [T;N] by value (moves, the source is never dropped: MaybeUninit has no drop glue)",
    "[T; N][container::ContainerExactly]::uninit": "delegates to uninit_array",
    "[T; N][container::ContainerExactly]::write": "MaybeUninit::write of slot i (no drop of the old content: slot is uninitialised by protocol)",
    "[T; N][container::ContainerExactly]::drop_before": "drops slots [..i] (callers: MAYBEUNINIT checks that i is the number of completed writes)",
    "[T; N][container::ContainerExactly]::take": "array_assume_init after all N writes (callers: MAYBEUNINIT)",
    "std::boxed::Box[container::ContainerExactly]::uninit": "Box::new(C::uninit())",
    "std::boxed::Box[container::ContainerExactly]::write": "delegates to C::write",
    "std::boxed::Box[container::ContainerExactly]::drop_before": "delegates to C::drop_before",
    "std::boxed::Box[container::ContainerExactly]::take": "Box<C::Uninit> -> Box<C> pointer cast: same allocation, ownership transferred once (into_raw then from_raw)",
    "primitive::Group[Parser]::go": "array group: holder of a partially initialised array (MAYBEUNINIT)",
    "combinator::CollectExactly[Parser]::go": "fixed-size collection: holder (MAYBEUNINIT)",
    # --- not value-owning
    "&'src str[input::Input]::next_maybe": "get_unchecked(cursor..) + next().unwrap_unchecked(): reads a char (Copy) from a boundary cursor (C07/C20 cursor discipline)",
    "&'src text::unicode::Graphemes[input::Input]::next_maybe": "same for grapheme clusters (references into the caller's string)",
    "cache::Cache::get": "lifetime cast of a shared reference to the cached parser (no ownership involved)",
    "recursive::OnceCell::set": "write-once cell (ONCE rule: written only while vacant)",
}

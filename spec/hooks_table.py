"""HOOKS: the reviewed set of functions that may move InputRef.cursor / mutate Errors.secondary.
qname -> (allowed event kinds, reason, optional-in-some-feature-configs?)

A function not listed here that assigns / mutably borrows / constructs InputRef.cursor, or mutates
Errors.secondary, is reported: every cursor movement must go through a primitive that calls the
matching Inspector hook (rules HOOKS-TOKEN / HOOKS-SAVE-REWIND check the primitives themselves)."""

CURSOR_WRITERS = {
    "input::InputOwn::as_ref_start": ({"construct"}, "start of a parse: cursor = input.begin()", False),
    "input::InputRef::next_inner": ({"mutborrow"}, "token reader (on_token: HOOKS-TOKEN)", False),
    "input::InputRef::next_maybe_inner": ({"mutborrow"}, "token reader (on_token: HOOKS-TOKEN)", False),
    "input::InputRef::next_ref_inner": ({"mutborrow"}, "token reader (on_token: HOOKS-TOKEN)", False),
    "input::InputRef::skip_while": ({"assign"}, "token skipping (on_token: HOOKS-TOKEN)", False),
    "input::InputRef::rewind": ({"assign"}, "checkpoint restore (on_rewind: HOOKS-SAVE-REWIND)", False),
    "input::InputRef::rewind_input": ({"assign"}, "position-only restore (on_rewind: HOOKS-SAVE-REWIND)", False),
    "input::InputRef::with_ctx": ({"assign", "construct"}, "child input shares everything but ctx; cursor copied back (SUB-INPUT)", False),
    "input::InputRef::with_state": ({"assign", "construct"}, "child input shares everything but state; cursor copied back (SUB-INPUT)", False),
    "input::InputRef::with_input": ({"construct"}, "nested input: fresh cursor of another input type (SUB-INPUT)", False),
    # named exception (DESIGN §8): byte skipping for regex / lexical numbers, no per-token hook possible
    "input::InputRef::skip_bytes": ({"assign"}, "regex / number parsers skip a matched byte length; outside C18's grammar class", True),
}

SECONDARY_WRITERS = {
    "input::InputRef::emit": ({"push"}, "append one non-fatal error"),
    "input::InputRef::rewind": ({"truncate"}, "drop emissions of the abandoned attempt"),
    "input::InputRef::with_input": ({"drain", "extend", "push"}, "move inner emissions to the outer list (SUB-INPUT pins the one effect: each drained error pushed once)"),
    "input::InputOwn::into_errs": ({"into_iter"}, "hand the list to the caller at the end of the parse"),
    "input::Errors::secondary_errors_since": ({"deref_mut"}, "mutable view of the tail (Labelled annotates contexts in place)"),
}

"""CONTAINER-PROV: reviewed operations of the fixed-size container primitives (qname -> calls with operand
provenance, '[always]' = on every path)."""

CALLS = {
    '[T; N][container::ContainerExactly]::drop_before': ['closure: assume_init_drop(arg2)', 'for_each(iter_mut(index_mut(arg1, RangeTo{end: arg2})), closure) [always]', 'index_mut(arg1, RangeTo{end: arg2}) [always]', 'iter_mut(index_mut(arg1, RangeTo{end: arg2})) [always]'],
    '[T; N][container::ContainerExactly]::take': ['array_assume_init(arg1) [always]'],
    '[T; N][container::ContainerExactly]::uninit': ['uninit_array() [always]'],
    '[T; N][container::ContainerExactly]::write': ['write(arg1.[arg2], arg3) [always]'],
    'std::boxed::Box[container::ContainerExactly]::drop_before': ['drop_before(arg1.0.pointer, arg2) [always]'],
    'std::boxed::Box[container::ContainerExactly]::take': ['from_raw(into_raw(arg1)) [always]', 'into_raw(arg1) [always]'],
    'std::boxed::Box[container::ContainerExactly]::uninit': ['new(uninit()) [always]', 'uninit() [always]'],
    'std::boxed::Box[container::ContainerExactly]::write': ['write(arg1.0.pointer, arg2, arg3) [always]'],
    'std::mem::MaybeUninit[private::MaybeUninitExt]::array_assume_init': ['read(arg1) [always]'],
    'std::mem::MaybeUninit[private::MaybeUninitExt]::uninit_array': ['assume_init(uninit()) [always]', 'uninit() [always]'],
}

"""CONTAINER-PROV: reviewed operations of the fixed-size container primitives, in effects normal form (engine/nf.py: the maximal
call terms; iteration / closure / cast plumbing erased; `[always]` = on every path, `[each]` = once per element of the iterated range)."""

CALLS = {
    '[T; N][container::ContainerExactly]::drop_before': ['assume_init_drop(elem(index_mut(arg1, RangeTo{end: arg2}))) [each]'],
    '[T; N][container::ContainerExactly]::take': ['read(arg1) [always]'],
    '[T; N][container::ContainerExactly]::uninit': ['assume_init(uninit()) [always]'],
    '[T; N][container::ContainerExactly]::write': ['write(arg1.[arg2], arg3) [always]'],
    'std::boxed::Box[container::ContainerExactly]::drop_before': ['drop_before(arg1.0.pointer, arg2) [always]'],
    'std::boxed::Box[container::ContainerExactly]::take': ['from_raw(into_raw(arg1)) [always]'],
    'std::boxed::Box[container::ContainerExactly]::uninit': ['new(uninit()) [always]'],
    'std::boxed::Box[container::ContainerExactly]::write': ['write(arg1.0.pointer, arg2, arg3) [always]'],
    'std::mem::MaybeUninit[private::MaybeUninitExt]::array_assume_init': ['read(arg1) [always]'],
    'std::mem::MaybeUninit[private::MaybeUninitExt]::uninit_array': ['assume_init(uninit()) [always]'],
}

NOTE = ("decides the structural clauses listed in DESIGN §5 for this property (a necessary condition of the behaviour), "
        "not the end-to-end behaviour; trusted base: rustc type checker + MIR construction, engine/models.py effect table "
        "for std adaptors, structural induction over the combinator tree, user parsers obey the documented Err contract")

CLAIMED = {
    "C05": {"text": "path-sensitive typestate analysis of every combinator body: abandoned attempts are always rewound "
                    "(POISON), a rewind never truncates emissions of a kept output (KEEP), rewinds are LIFO; covers all "
                    "paths of the polymorphic MIR, i.e. all instantiations, grammars and inputs by structural induction",
            "design_ref": "§4.1, §5 C05", "note": NOTE,
            "technique": "static typestate/effect analysis over MIR (abstract interpretation, no execution)"},
    "C06": {"text": "linear-token analysis of errors.alt over all paths of every body touching it (ALT-LINEAR), position "
                    "provenance of re-added errors (ALT-POS), every Err exit records a primary error (PFAIL)",
            "design_ref": "§4.1, §5 C06", "note": NOTE,
            "technique": "static linear-resource/provenance analysis over MIR"},
    "C20": {"text": "every Err(()) exit of every parser body has a recorded primary error, every 'Can't fail' unwrap is "
                    "dominated by a recorded alt on all paths (PFAIL)",
            "design_ref": "§4.1, §5 C20", "note": NOTE,
            "technique": "static must-analysis (definite-Some) over MIR paths"},
}

_PENDING = "check under construction in this round (static rule designed in DESIGN §5, not yet registered)"
NOT_APPLICABLE = {p: _PENDING for p in
                  ["C01", "C02", "C03", "C04", "C07", "C08", "C09", "C10", "C11", "C12", "C13", "C14", "C15", "C16",
                   "C17", "C18", "C19"]}

NOTES = ("All checks are static: they read /repo's current sources through a rustc_private driver (facts cached by "
         "content hash of src/**, Cargo.toml, Cargo.lock) and never run a chumsky parser. Exit 2 + CHECKER-ERROR = the "
         "checker itself failed closed (missing anchor, floor, unknown effect), distinct from VIOLATION (exit 1).")

NOTE = ("decides the structural clauses listed in DESIGN §5 for this property (a necessary condition of the behaviour), "
        "not the end-to-end behaviour; trusted base: rustc type checker + MIR construction, engine/models.py effect table "
        "for std adaptors, structural induction over the combinator tree, user parsers obey the documented Err contract")

CLAIMED = {
    "C05": {"text": "path-sensitive typestate analysis of every combinator body: abandoned attempts are always rewound "
                    "(POISON), a rewind never truncates emissions of a kept output (KEEP), rewinds are LIFO; covers all "
                    "paths of the polymorphic MIR, i.e. all instantiations, grammars and inputs by structural induction",
            "design_ref": "§4.1, §5 C05", "note": NOTE,
            "technique": "static typestate/effect analysis over MIR (abstract interpretation, no execution)"},
    "C06": {"text": "linear-token analysis of errors.alt over all paths of every body touching it (ALT-LINEAR), position "
                    "provenance of re-added errors (ALT-POS), every Err exit records a primary error (PFAIL)",
            "design_ref": "§4.1, §5 C06", "note": NOTE,
            "technique": "static linear-resource/provenance analysis over MIR"},
    "C20": {"text": "every Err(()) exit of every parser body has a recorded primary error, every 'Can't fail' unwrap is "
                    "dominated by a recorded alt on all paths (PFAIL)",
            "design_ref": "§4.1, §5 C20", "note": NOTE,
            "technique": "static must-analysis (definite-Some) over MIR paths"},

    "C04": {"text": "check()/parse() equivalence by parametricity: go<M: Mode> can observe the mode only through Mode's methods, so "
                    "it suffices that the Emit and Check impls of every Mode method and all go_emit/go_check/*_cfg/do_parse_* forwarders "
                    "are erasures of one another (MODE-PAIR), and that every closure handed to a Mode value method (run in Emit only) is "
                    "free of parse-state effects (MODE-PURE); decided for every body of the crate",
            "design_ref": "§4.1 MODE-PAIR/MODE-PURE, §5 C04", "note": NOTE,
            "technique": "static effect analysis + sibling (Emit vs Check) agreement over MIR"},
    "C12": {"text": "every recursion edge (Recursive<Indirect|Direct>::go dispatch, Pratt::pratt_go self-calls) lies inside a closure "
                    "whose only sink is recursive::recurse, which reaches stacker::maybe_grow(red_zone < stack_size) (RECURSE); "
                    "define-once discipline of the declare/define cell (ONCE)",
            "design_ref": "§4.1 RECURSE, §5 C12", "note": NOTE,
            "technique": "static call-graph / closure-sink (must-pass-through) analysis over MIR"},
    "C13": {"text": "type-level: all parser/strategy/operator ADTs are free of interior mutability modulo their parameters (FREEZE), the "
                    "crate has no global/thread-local/atomic state (STATICS), and all per-parse state is owned by an InputOwn built "
                    "afresh in each parse/check entry point and consumed before it returns (OWN-STATE)",
            "design_ref": "§4.4 FREEZE, §5 C13", "note": NOTE,
            "technique": "static type-level analysis (deep field/generic-argument scan) + who-may-construct rule"},
    "C18": {"text": "the cursor can be moved only by a reviewed set of InputRef primitives (HOOKS-WRITERS), each of which calls the "
                    "matching Inspector hook on exactly the paths that move it (HOOKS-TOKEN, HOOKS-SAVE-REWIND), child inputs are "
                    "built from the specified pieces and with_state gets a fresh clone (SUB-INPUT); combinators abandon input only "
                    "through rewind (POISON/KEEP)",
            "design_ref": "§4.1 HOOKS, §5 C18", "note": NOTE,
            "technique": "static who-may-write + path pairing (hook on every advancing path) analysis over MIR"},
    "C19": {"text": "outside a reviewed inventory of functions using leak/duplication-capable operations (UNSAFE-INV) rustc's drop "
                    "elaboration guarantees exactly-once drops; for each holder of a partially initialised container every path after "
                    "a write passes a prefix drop or the final take, never both, with the drop count = write index (MAYBEUNINIT)",
            "design_ref": "§4.1 UNSAFE-INV/MAYBEUNINIT, §5 C19", "note": NOTE,
            "technique": "static inventory + CFG path rule (must-pass-through / must-not-pass-twice) over MIR"},
}

_PENDING = "check under construction in this round (static rule designed in DESIGN §5, not yet registered)"
NOT_APPLICABLE = {p: _PENDING for p in
                  ["C01", "C02", "C03", "C07", "C08", "C09", "C10", "C11", "C14", "C15", "C16", "C17"]}

NOTES = ("All checks are static: they read /repo's current sources through a rustc_private driver (facts cached by "
         "content hash of src/**, Cargo.toml, Cargo.lock) and never run a chumsky parser. Exit 2 + CHECKER-ERROR = the "
         "checker itself failed closed (missing anchor, floor, unknown effect), distinct from VIOLATION (exit 1).")

NOTE = ("decides the structural clauses listed in DESIGN §5 for this property (a necessary condition of the behaviour), "
        "not the end-to-end behaviour; trusted base: rustc type checker + MIR construction, engine/models.py effect table "
        "for std adaptors, structural induction over the combinator tree, user parsers obey the documented Err contract")

K = ("; both directions (every computed edge is an instance of a contract edge, every contract edge is realised) plus the "
     "discipline rules restricted to these bodies")

CLAIMED = {
    "C05": {"text": "path-sensitive typestate analysis of every combinator body: abandoned attempts are always rewound "
                    "(POISON), a rewind never truncates emissions of a kept output (KEEP), rewinds are LIFO; covers all "
                    "paths of the polymorphic MIR, i.e. all instantiations, grammars and inputs by structural induction",
            "design_ref": "§4.1, §5 C05", "note": NOTE,
            "technique": "static typestate/effect analysis over MIR (abstract interpretation, no execution)"},
    "C06": {"text": "linear-token analysis of errors.alt over all paths of every body touching it (ALT-LINEAR), position "
                    "provenance of re-added errors (ALT-POS), every Err exit records a primary error (PFAIL)",
            "design_ref": "§4.1, §5 C06", "note": NOTE,
            "technique": "static linear-resource/provenance analysis over MIR"},
    "C20": {"text": "every Err(()) exit of every parser body has a recorded primary error, every 'Can't fail' unwrap is "
                    "dominated by a recorded alt on all paths (PFAIL)",
            "design_ref": "§4.1, §5 C20", "note": NOTE,
            "technique": "static must-analysis (definite-Some) over MIR paths"},

    "C04": {"text": "check()/parse() equivalence by parametricity: go<M: Mode> can observe the mode only through Mode's methods, so "
                    "it suffices that the Emit and Check impls of every Mode method and all go_emit/go_check/*_cfg/do_parse_* forwarders "
                    "are erasures of one another (MODE-PAIR), and that every closure handed to a Mode value method (run in Emit only) is "
                    "free of parse-state effects (MODE-PURE); decided for every body of the crate",
            "design_ref": "§4.1 MODE-PAIR/MODE-PURE, §5 C04", "note": NOTE,
            "technique": "static effect analysis + sibling (Emit vs Check) agreement over MIR"},
    "C12": {"text": "every recursion edge (Recursive<Indirect|Direct>::go dispatch, Pratt::pratt_go self-calls) lies inside a closure "
                    "whose only sink is recursive::recurse, which reaches stacker::maybe_grow(red_zone < stack_size) (RECURSE); "
                    "define-once discipline of the declare/define cell (ONCE)",
            "design_ref": "§4.1 RECURSE, §5 C12", "note": NOTE,
            "technique": "static call-graph / closure-sink (must-pass-through) analysis over MIR"},
    "C13": {"text": "type-level: all parser/strategy/operator ADTs are free of interior mutability modulo their parameters (FREEZE), the "
                    "crate has no global/thread-local/atomic state (STATICS), and all per-parse state is owned by an InputOwn built "
                    "afresh in each parse/check entry point and consumed before it returns (OWN-STATE)",
            "design_ref": "§4.4 FREEZE, §5 C13", "note": NOTE,
            "technique": "static type-level analysis (deep field/generic-argument scan) + who-may-construct rule"},
    "C18": {"text": "the cursor can be moved only by a reviewed set of InputRef primitives (HOOKS-WRITERS), each of which calls the "
                    "matching Inspector hook on exactly the paths that move it (HOOKS-TOKEN, HOOKS-SAVE-REWIND), child inputs are "
                    "built from the specified pieces and with_state gets a fresh clone (SUB-INPUT); combinators abandon input only "
                    "through rewind (POISON/KEEP)",
            "design_ref": "§4.1 HOOKS, §5 C18", "note": NOTE,
            "technique": "static who-may-write + path pairing (hook on every advancing path) analysis over MIR"},
    "C19": {"text": "outside a reviewed inventory of functions using leak/duplication-capable operations (UNSAFE-INV) rustc's drop "
                    "elaboration guarantees exactly-once drops; for each holder of a partially initialised container every path after "
                    "a write passes a prefix drop or the final take, never both, with the drop count = write index (MAYBEUNINIT)",
            "design_ref": "§4.1 UNSAFE-INV/MAYBEUNINIT, §5 C19", "note": NOTE,
            "technique": "static inventory + CFG path rule (must-pass-through / must-not-pass-twice) over MIR"},

    "C01": {"text": "each primitive / sequence / choice / option / lookahead / mapping combinator body is abstracted over all its MIR paths "
                    "to an automaton (nodes: child calls in a given mode and token reads; edges: guard facts, cursor position relative "
                    "to entry/before/after a child, effects) and compared with the contract automaton written from the PEG reading: "
                    "children left to right, alternatives in order with the cursor restored before each, first success returned, "
                    "lookahead ends where it started, rejecting filter/try_map exits Err with a recorded error" + K,
            "design_ref": "§4.2, §5 C01", "note": NOTE,
            "technique": "static abstract interpretation of MIR to per-combinator automata + contract-automaton conformance"},
    "C02": {"text": "automaton conformance of Repeated/SeparatedBy (next, next_cfg, go incl. the unbounded fast path), Collect, "
                    "CollectExactly, Enumerate, Foldl/Foldr(+With), IntoIter, iterator forms of Then/OrNot/Map: an item is attempted iff "
                    "count<at_most, a failed item ends the repetition with Ok(None) iff count>=at_least (else Err) at the position "
                    "before the failed attempt, the separator is attempted/undone per allow_leading/allow_trailing/state, count is "
                    "incremented on item success" + K,
            "design_ref": "§4.2, §5 C02", "note": NOTE,
            "technique": "static abstract interpretation of MIR to per-combinator automata (guard facts) + contract conformance"},
    "C08": {"text": "automaton conformance of RecoverWith and the three strategies: parser Ok is returned untouched; parser Err -> "
                    "rewind -> strategy; strategy Ok exits carry exactly the emit of the taken error, Err exits restore it; "
                    "skip_until / skip_then_retry_until loop order, retry accepted only under the no-new-errors fact" + K
                    + " and ALT-LINEAR/PFAIL for the taken error",
            "design_ref": "§4.2, §5 C08", "note": NOTE,
            "technique": "static automaton conformance + linear-token analysis over MIR"},
    "C09": {"text": "automaton conformance of Infix/Prefix/Postfix operators (binding-power guard facts, operand power, Err exits restored "
                    "to pre_op/pre_expr), tuple(1..26)/Vec/Boxed operator tables (declaration order, first success, generated contract), "
                    "pratt_go loop (prefix-or-atom, then postfix/infix until neither applies, final restore); RECURSE for the two "
                    "recursion edges; closed-form AFFINE obligations on left_power/right_power",
            "design_ref": "§4.2, §4.3 AFFINE, §5 C09", "note": NOTE,
            "technique": "static automaton conformance + affine-domain evaluation of the power functions"},
    "C11": {"text": "automaton conformance of Memoized::go: an occupied entry exits Err without calling the child (left-recursion cut), "
                    "a vacant entry inserts the in-progress marker before the child call and resolves it on both outcomes; the miss "
                    "path is neutral; ALT-LINEAR/ALT-POS/PFAIL around the bookkeeping; MEMO-KEY (type-level) is a listed known finding",
            "design_ref": "§5 C11", "note": NOTE,
            "technique": "static automaton conformance + type-level key rule"},
    "C15": {"text": "automaton conformance of the context providers/consumers (IgnoreWithCtx, ThenWithCtx, WithCtx, MapCtx, Configure, "
                    "IterConfigure, TryIterConfigure, Just::go_cfg, Repeated::next_cfg: configured bounds win via unwrap_or terms) and "
                    "SUB-INPUT provenance: with_ctx builds the child input from exactly (new ctx, everything else shared) and copies "
                    "back only the cursor",
            "design_ref": "§4.3 CTX-PROV, §5 C15", "note": NOTE,
            "technique": "static automaton conformance + provenance analysis of aggregates"},
    "C16": {"text": "automaton conformance of NestedIn::go (outer parser first in Emit, inner run = then_ignore(self.parser_a, end()) on the "
                    "inner input, result = inner result) and SUB-INPUT conformance of with_input (fresh cursor/cache/errors/memos, outer "
                    "state+ctx, inner emissions drained once, outer cursor untouched); ALT-LINEAR/PFAIL for the sheltered outer error",
            "design_ref": "§5 C16", "note": NOTE,
            "technique": "static automaton conformance + provenance analysis"},
    "C17": {"text": "automaton conformance of Labelled / MapErr / MapErrWithState: neutral decorators (child result returned, no cursor "
                    "movement, no emission), label/context decision by the position facts, re-added errors keep their position "
                    "(ALT-POS) and the sheltered pending error is restored on all paths (ALT-LINEAR)",
            "design_ref": "§5 C17", "note": NOTE,
            "technique": "static automaton conformance + linear-token/position-provenance analysis"},

    "C03": {"text": "ENTRY: parse_with_state/check_with_state run the grammar exactly once as ThenIgnore<&Self, End<I,E>> (type-resolved "
                    "receiver built by then_ignore(self, end())), push the taken pending error on exactly the no-output path, build the "
                    "result from this parse's error list; into_result is Ok only under errs.is_empty() via output.ok_or; accessors read "
                    "the two private fields; ParseResult::new crate-private with the entry points as only callers; lazy() = "
                    "then_ignore(any().repeated()); plus the contract automata of End / ThenIgnore / Any / Repeated",
            "design_ref": "§5 C03", "note": NOTE,
            "technique": "static must-pass-through / path rules + type-resolved receiver check + automaton conformance"},
    "C07": {"text": "capture sites as effects of the combinator automata: every span/slice handed to user code (to_slice, to_span, map_with, "
                    "try_map(_with), validate, select, filter errors, foldl_with/foldr_with, Pratt folds) starts at the cursor where the "
                    "measured child started and ends at the current cursor, with per-item cursors taken in the same loop iteration and "
                    "operators told the expression start (contract conformance); SPAN-PROV: path-sensitive provenance of "
                    "Input::span/span_from/slice/slice_from of all 9 input implementations equals the reviewed table (start<-range.start, "
                    "end<-range.end / last token end / eoi); SPAN-EMPTY: an empty range is never described by two different tokens "
                    "(start of the following, recorded end of the preceding) - such a path must exclude range.start == range.end; READER-SIB: next/next_maybe/next_ref of one input record the same cursor "
                    "sub-fields; &str/grapheme cursors advance by the decoded item's length",
            "design_ref": "§4.3 RANGE-PROV, §5 C07", "note": NOTE,
            "technique": "static provenance analysis (flow- and path-sensitive) + automaton conformance"},
    "C10": {"text": "structural clauses only: sibling agreement of the token readers of each input type (READER-SIB), span/slice bound "
                    "provenance per input (SPAN-PROV), Stream pulls from its iterator at one guarded site, only appends to its cache and "
                    "serves by index (STREAM: each item pulled at most once, in order, independent of backtracking), graphemes(true) "
                    "everywhere, IoInput re-seeks iff cursor != reader position (INPUT-MISC)",
            "design_ref": "§4.3 INPUT-SIB, §5 C10", "note": NOTE + "; equality of results across representations is a runtime relation and is declined",
            "technique": "static sibling-agreement + who-may-touch + guard-provenance rules over MIR"},
    "C14": {"text": "structural clauses only: the three text::Char impls agree (newline tables: the seven documented code points / their "
                    "ASCII subset / plus CRLF; inline whitespace; digit_zero; u8 delegates digit/ident classification to char) (CHAR-SIB); "
                    "automaton conformance of newline() (CR then optional LF in one match; otherwise one is_newline token), Padded "
                    "(skip_while both sides), regex (whole-slice haystack, Anchored::Yes, range(cursor..), advance by match length); "
                    "skip_while stops before the first non-matching token and hooks consumed ones (HOOKS-TOKEN)",
            "design_ref": "§4.3 CHAR-SIB, §5 C14", "note": NOTE + "; that int/digits/ident/keyword accept exactly their documented languages is declined (value predicates over composed grammars)",
            "technique": "static sibling-table agreement (literal constants incl. promoted tables) + automaton conformance"},
}

_PENDING = "check under construction in this round (static rule designed in DESIGN §5, not yet registered)"
NOT_APPLICABLE = {}

NOTES = ("All checks are static: they read /repo's current sources through a rustc_private driver (facts cached by "
         "content hash of src/**, Cargo.toml, Cargo.lock) and never run a chumsky parser. Exit 2 + CHECKER-ERROR = the "
         "checker itself failed closed (missing anchor, floor, unknown effect), distinct from VIOLATION (exit 1).")

"""BUILDER-PROV / CHAR-PROV: reviewed provenance of the small setter and classification bodies."""

BUILDERS = {
    'combinator::Repeated::at_least': ['returns Repeated{parser: arg1.parser, at_least: arg2, at_most: arg1.at_most, location: arg1.location, phantom: arg1.phantom}'],
    'combinator::Repeated::at_most': ['returns Repeated{parser: arg1.parser, at_least: arg1.at_least, at_most: arg2, location: arg1.location, phantom: arg1.phantom}'],
    'combinator::Repeated::exactly': ['returns Repeated{parser: arg1.parser, at_least: arg2, at_most: arg2, location: arg1.location, phantom: arg1.phantom}'],
    'combinator::RepeatedCfg::at_least': ['self.at_least := Option{0: arg2} [always]', 'returns arg1'],
    'combinator::RepeatedCfg::at_most': ['self.at_most := Option{0: arg2} [always]', 'returns arg1'],
    'combinator::RepeatedCfg::exactly': ['self.at_least := Option{0: arg2} [always]', 'self.at_most := Option{0: arg2} [always]', 'returns arg1'],
    'combinator::SeparatedBy::allow_leading': ['returns SeparatedBy{parser: arg1.parser, separator: arg1.separator, at_least: arg1.at_least, at_most: arg1.at_most, allow_leading: const true, allow_trailing: arg1.allow_trailing, location: arg1.location, phantom: arg1.phantom}'],
    'combinator::SeparatedBy::allow_trailing': ['returns SeparatedBy{parser: arg1.parser, separator: arg1.separator, at_least: arg1.at_least, at_most: arg1.at_most, allow_leading: arg1.allow_leading, allow_trailing: const true, location: arg1.location, phantom: arg1.phantom}'],
    'combinator::SeparatedBy::at_least': ['returns SeparatedBy{parser: arg1.parser, separator: arg1.separator, at_least: arg2, at_most: arg1.at_most, allow_leading: arg1.allow_leading, allow_trailing: arg1.allow_trailing, location: arg1.location, phantom: arg1.phantom}'],
    'combinator::SeparatedBy::at_most': ['returns SeparatedBy{parser: arg1.parser, separator: arg1.separator, at_least: arg1.at_least, at_most: arg2, allow_leading: arg1.allow_leading, allow_trailing: arg1.allow_trailing, location: arg1.location, phantom: arg1.phantom}'],
    'combinator::SeparatedBy::exactly': ['returns SeparatedBy{parser: arg1.parser, separator: arg1.separator, at_least: arg2, at_most: arg2, allow_leading: arg1.allow_leading, allow_trailing: arg1.allow_trailing, location: arg1.location, phantom: arg1.phantom}'],
    'primitive::JustCfg::seq': ['self.seq := Option{0: arg2} [always]', 'returns arg1'],
}

CHAR_METHODS = {
    '&text::unicode::Grapheme[text::Char]::is_digit': ['as_str(arg1) [always]', 'chars(as_str(arg1)) [always]', 'is_digit(next(chars(as_str(arg1))).0, arg2) [sometimes]', 'next(chars(as_str(arg1))) [always]', 'next(chars(as_str(arg1))) [always]'],
    '&text::unicode::Grapheme[text::Char]::is_ident_continue': ['all(chars(as_str(arg1)), fn:is_xid_continue) [always]', 'as_str(arg1) [always]', 'chars(as_str(arg1)) [always]'],
    '&text::unicode::Grapheme[text::Char]::is_ident_start': ['all(chars(split(arg1).1), fn:is_xid_continue) [sometimes]', 'chars(split(arg1).1) [sometimes]', 'is_xid_start(split(arg1).0) [always]', "literals char:'_'", 'split(arg1) [always]'],
    '&text::unicode::Grapheme[text::Char]::is_whitespace': ['all(chars(as_str(arg1)), fn:is_whitespace) [always]', 'as_str(arg1) [always]', 'chars(as_str(arg1)) [always]'],
    '&text::unicode::Grapheme[text::Char]::to_ascii': ['as_bytes(arg1) [always]', 'is_ascii(next(iter(as_bytes(arg1))).0) [sometimes]', 'iter(as_bytes(arg1)) [always]', 'next(iter(as_bytes(arg1))) [always]', 'next(iter(as_bytes(arg1))) [always]'],
    'char[text::Char]::is_digit': ['is_digit(arg1, arg2) [always]'],
    'char[text::Char]::is_ident_continue': ['is_xid_continue(arg1) [always]'],
    'char[text::Char]::is_ident_start': ['is_xid_start(arg1) [always]', "literals char:'_'"],
    'char[text::Char]::is_whitespace': ['is_whitespace(arg1) [always]'],
    'char[text::Char]::to_ascii': ['is_ascii(arg1) [always]', 'then_some(is_ascii(arg1), arg1) [always]'],
    'u8[text::Char]::is_digit': ['is_digit(arg1, arg2) [always]'],
    'u8[text::Char]::is_ident_continue': ['is_ident_continue(arg1) [always]'],
    'u8[text::Char]::is_ident_start': ['is_ident_start(arg1) [always]'],
    'u8[text::Char]::is_whitespace': ['is_ascii_whitespace(arg1) [always]'],
    'u8[text::Char]::to_ascii': [],
}

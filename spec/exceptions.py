"""Named exceptions and trusted-pure callees (one symbol each, with the reason)."""

# ALT-POS: bodies allowed to re-home an error taken from errors.alt.
ALT_POS_EXCEPTIONS = {
    # inner cursors belong to another input type; with_input already homes the inner failure
    # at the (unchanged) outer cursor, and NestedIn re-adds it at that same outer cursor.
    "combinator::NestedIn[Parser]::go": "inner input positions cannot be expressed as outer cursors",
}

# Callees that receive (a reference into) the parser input but have no protocol effect.
PURE_INPUT_CALLEES = {
    "input::MapExtra::<'src, 'b, I, E>::new": "builds a read-only view (before, after, cache, state, ctx)",
}


def pure_callee(f):
    p = f["path"]
    if p in PURE_INPUT_CALLEES:
        return True
    # formatting / panics never return into the protocol
    if p.startswith("std::fmt") or p.startswith("core::fmt") or "panicking" in p:
        return True
    return False


def token_transparent(f):
    """Callees that return their (single) linear argument unchanged."""
    return f["name"] in ("into", "from", "Some")

"""Which contract automata decide which property (body-name patterns, first match wins per property).
A body may serve several properties."""
import re

GROUPS = [
    # (file, regex on body uname, properties)
    ("primitives", r"^primitive::(End|Empty|Just|OneOf|NoneOf|Any|AnyRef|Select|SelectRef|Custom|Todo)\[", ["C01"]),
    ("sequence", r"^combinator::(Then|IgnoreThen|ThenIgnore|DelimitedBy|PaddedBy)\[Parser\]|^primitive::Group\[", ["C01", "C04"]),
    ("choice", r"^combinator::Or\[|^primitive::Choice\[", ["C01"]),
    ("lookahead", r"^combinator::(OrNot|Not|AndIs|Rewind)\[Parser\]", ["C01", "C05"]),
    ("mapping", r"^combinator::(Map|MapWith|To|Ignored|ToSlice|ToSpan|Filter|TryMap|TryMapWith|Unwrapped|Validate)\[Parser\]", ["C01", "C04"]),
    ("forwarding", r"^(&T|std::boxed::Box|std::rc::Rc|std::sync::Arc|Boxed|either::Either)\[(Parser|ConfigParser)\]", ["C01", "C13"]),
    ("repetition", r"^combinator::(Repeated|SeparatedBy|Collect|CollectExactly|Enumerate|Foldl|FoldlWith|Foldr|FoldrWith|IntoIter)\[|^combinator::(Then|OrNot|Map|MapWith)\[IterParser\]", ["C02"]),
    ("nightly", r"^combinator::(Flatten|MapGroup)\[|^!\[Parser\]", ["C02"]),
    ("configure", r"^combinator::(Configure|IterConfigure|TryIterConfigure)\[|^primitive::Just\[ConfigParser\]|^combinator::Repeated\[ConfigIterParser\]", ["C15", "C02"]),
    ("context", r"^combinator::(IgnoreWithCtx|ThenWithCtx|WithCtx)\[|^primitive::MapCtx\[", ["C15"]),
    ("state", r"^combinator::WithState\[", ["C18"]),
    ("recovery", r"^recovery::", ["C08"]),
    ("pratt", r"^pratt::|\[pratt::Operator\]", ["C09"]),
    ("memo", r"^combinator::Memoized\[", ["C11"]),
    ("recursive", r"^recursive::Recursive\[", ["C12"]),
    ("nested", r"^combinator::NestedIn\[", ["C16"]),
    ("labels", r"^label::Labelled\[|^combinator::(MapErr|MapErrWithState)\[", ["C17", "C06"]),
    ("text", r"^text::Padded\[|^text::newline::|^regex::Regex\[|^number::Number\[", ["C14"]),
    ("extension", r"^extension::current::", ["C04"]),
    ("inputref", r"^input::InputRef::(parse|check)$", ["C20", "C01"]),      # the building blocks of `custom` primitives: inp.check(a) consumes what a matched
    # additional property memberships (the file is decided by the first match above)
    ("+c03", r"^primitive::(End|Any)\[Parser\]|^combinator::ThenIgnore\[Parser\]|^combinator::Repeated\[(Parser|IterParser)\]", ["C03"]),
    ("+c07", r"^combinator::(ToSlice|ToSpan|MapWith|TryMap|TryMapWith|Validate|FoldlWith|FoldrWith|Filter)\[|^primitive::(Select|SelectRef)\[|^pratt::|\[pratt::Operator\]", ["C07"]),
    # sequencing / option in iterable form: `a.then(b)` over iterables runs A's items before B is even set up
    ("+c01", r"^combinator::(OrNot|Then|Map|MapWith)\[IterParser\]", ["C01"]),
    # a left-recursive / re-entrant recursive grammar is the one place where the SAME Memoized instance is entered again while it is
    # running: `equals its unrolling` (C12) then rests on the marker protocol; what recovery reports is the pending error (C08)
    ("+c12", r"^combinator::Memoized\[", ["C12", "C08"]),
    # C04 (mode classes of every child call), C05 (emit effects, restore positions) and C06 (`alt` effects: what error is recorded,
    # with which span/found, ranked where) are statements about every automaton
    ("+c04", r".", ["C04"]),
    ("+c05b", r".", ["C05"]),
    ("+c06b", r".", ["C06"]),
    # Labelled(as_context) reads the positions recorded with emitted errors (secondary_errors_since): every emit site serves C17
    ("+c17", r"^combinator::Validate\[|^recovery::", ["C17"]),
    # the nested run is `then_ignore(inner, end())`
    # ... and the documented idiom extracts the inner input (and its end-of-input span) with select!/select_ref!
    ("+c16", r"^primitive::End\[Parser\]|^combinator::ThenIgnore\[Parser\]|^primitive::(Select|SelectRef)\[Parser\]", ["C16"]),
    ("+c05", r"^recovery::|^combinator::(SeparatedBy|Repeated)\[|^combinator::Validate\[|^combinator::NestedIn\[", ["C05"]),
    ("+c20", r"^recovery::|^combinator::(Repeated|SeparatedBy|Collect|CollectExactly|Foldl|FoldlWith|Foldr|FoldrWith)\[Parser\]::go|^pratt::Pratt::pratt_go|^combinator::Not\[", ["C20"]),
    # "an error-free result with an output means the grammar consumed every token" rests on every combinator: none may accept
    # unmatched tokens (a rejecting closure skipped in one mode) or lose an emitted error
    ("+c03b", r".", ["C03"]),
    # text::{int, digits, ident, keyword, whitespace ..} are compositions (GRAMMAR pins the term): the combinators the terms are made of,
    # incl. the configured form of `repeated()` that `digits(..).configure(..)` goes through
    ("+c14", r"^combinator::(TryMap|ToSlice|Ignored|Then|Or|Map|Repeated)\[|^primitive::(Any|Just)\[", ["C14"]),
    # context providers in iterable form are driven by the iterable combinators (a.then(b) chains, collect, folds)
    ("+c15", r"^combinator::(Then|OrNot|Map|MapWith)\[IterParser\]|^combinator::(Collect|CollectExactly|Foldl|FoldlWith|Foldr|FoldrWith|IntoIter|Enumerate)\[", ["C15"]),
    # errors emitted inside a nested parse must surface / be discarded like any others: validate, and the choices that backtrack over it
    ("+c16b", r"^combinator::Validate\[|^primitive::Choice\[|^combinator::Or\[", ["C16"]),
    ("+c06", r"^primitive::(End|Just|OneOf|NoneOf|Any|AnyRef|Select|SelectRef|Custom)\[|^combinator::(Filter|TryMap|TryMapWith|Not)\[", ["C06"]),
]

# bodies that are protocol bodies but deliberately have no contract automaton (decided by other rules)
NO_CONTRACT = [
    (r"^input::InputRef::(add_alt|add_alt_err)$", "ORDER-ARMS rule"),
    (r"^private::(Emit|Check)\[private::Mode\]::", "MODE-PAIR rule"),
    (r"^pratt::Operator::do_parse_", "trait default bodies: unconditional Err(lhs)"),
    (r"::(go_emit|go_check|go_emit_cfg|go_check_cfg)(<.*>)?$|_(emit|check)(<.*>)?$", "forwarders: MODE-PAIR rule"),
]


def group_of(uname):
    first = None
    props = []
    for g, pat, ps in GROUPS:
        if re.search(pat, uname):
            if first is None and not g.startswith("+"):
                first = g
            for p_ in ps:
                if p_ not in props:
                    props.append(p_)
    return first, (props if first is not None else [])


def skipped(uname):
    for pat, why in NO_CONTRACT:
        if re.search(pat, uname):
            return why
    return None

"""Generated contract automata for the macro-expanded tuple families (arity 1..26).
Written from the PEG reading, independent of the computed automata:

  choice((p0, .., pn-1))   ordered choice: try p0; each failure is undone (cursor back where the failed
                           alternative started, which by induction is the entry position) before the next
                           alternative; the first success is returned and no alternative is revisited.
  group((p0, .., pn-1))    sequence: p0 .. pn-1 left to right, first failure propagates.
  (op0, .., opn-1) as a Pratt operator table: operators are tried in declaration order; an operator that
                           does not apply returns Err having restored the input itself (Operator contract), so
                           the next one starts from the same checkpoint; the first success is returned.
"""
import re


def arity(uname):
    m = re.search(r"<\(([^()]*)\)>+$", uname)
    if m:
        return len([x for x in m.group(1).split(",") if x.strip()])
    m = re.match(r"^\(([^()]*)\)\[", uname)
    if m:
        return len([x for x in m.group(1).split(",") if x.strip()])
    return None


def generated_for(uname):
    """Contract text for a tuple-family body, or None."""
    n = arity(uname)
    if n is None:
        return None
    lines = []
    if re.match(r"^primitive::Choice\[Parser\]::go<primitive::Choice<\(", uname):
        c = lambda i: "self.parsers.%d.go:M" % i
        lines.append("ENTRY -> %s @E" % c(0))
        for i in range(n):
            lines.append("%s Ok -> EXIT Ok @after(self.parsers.%d)" % (c(i), i))
            if i + 1 < n:
                lines.append("%s Err -> %s @before" % (c(i), c(i + 1)))
            else:
                lines.append("%s Err -> EXIT Err @any" % c(i))
    elif re.match(r"^primitive::Group\[Parser\]::go<primitive::Group<\(", uname):
        c = lambda i: "self.parsers.%d.go:M" % i
        lines.append("ENTRY -> %s @E" % c(0))
        for i in range(n):
            lines.append("%s Err -> EXIT Err @any" % c(i))
            if i + 1 < n:
                lines.append("%s Ok -> %s @after(self.parsers.%d)" % (c(i), c(i + 1), i))
            else:
                lines.append("%s Ok -> EXIT Ok @after(self.parsers.%d)" % (c(i), i))
    else:
        m = re.match(r"^\([^()]*\)\[pratt::Operator\]::do_parse_(prefix|postfix|infix)$", uname)
        if not m:
            return None
        k = m.group(1)
        ck = "pre_expr" if k == "prefix" else "pre_op"
        c = lambda i: "self.%d.op_%s:M" % (i, k)
        # every member is handed the same expression start and the same checkpoint (= where the input is now)
        ef = " {pre_expr@here}" if k == "prefix" else " {pre_expr@pre_expr; pre_op@here}"
        lines.append("ENTRY -> %s @%s%s" % (c(0), ck, ef))
        for i in range(n):
            lines.append("%s Ok -> EXIT Ok @after(self.%d)" % (c(i), i))
            if i + 1 < n:
                lines.append("%s Err -> %s @%s%s" % (c(i), c(i + 1), ck, ef))
            else:
                lines.append("%s Err -> EXIT Err @%s" % (c(i), ck))
    return uname + ":\n" + "\n".join("  " + l for l in lines) + "\n"

"""HELPER-PROV reference signatures (spec/helper_table_data.json: bootstrapped with tools/bootstrap_helpers.py on the reviewed tree,
then read entry by entry against src/container.rs, input.rs, inspector.rs, error.rs, util.rs, text.rs, private.rs, cache.rs,
recursive.rs).  Review notes (what each group must say):
  seq        seq_iter yields the pattern's items front to back (iter / chars / once / the range itself); to_maybe_ref wraps self
  container  push appends exactly once at the END (push / push_back / insert(k, v)); () drops the item; usize counts +1;
             with_capacity forwards the requested capacity to the std constructor (default: Default::default())
  input-base begin = (cursor 0 | inner begin (+ None for the recorded end), cache parts in declaration order);
             cursor_location = the index itself / the inner location; full_slice = the whole input
  mapextra   span/slice are measured before..after on the cache; state/ctx are the ones handed in
  emitter    emit pushes once; secondary_errors_since = tail from the given count; InputOwn starts at begin() with default errors/memos
  inspector  the built-in inspectors do nothing; SimpleState derefs to its payload
  error-acc  accessors return the stored span / found / expected / contexts
  located    Located::at(pos, err) = {pos, err}
  maybe      Maybe derefs to / unwraps its payload; map_maybe applies the function for its own variant (owned vs borrowed)
  grapheme   wrappers are views of the same str; GraphemesIter segments with graphemes(true)
  recursive  Recursive::parser upgrades the weak handle or panics; Cache::get returns the stored parser"""
import json
import os

_D = json.load(open(os.path.join(os.path.dirname(os.path.abspath(__file__)), "helper_table_data.json")))


def lookup(key, config):
    e = _D.get(key)
    if e is None or config not in e["configs"]:
        return None
    return (e.get("override") or {}).get(config, e["sig"])


def anchors(config):
    return [(k, e["group"]) for k, e in _D.items() if config in e["configs"]]

"""PANIC-INV: the reviewed inventory of operations in the crate that can panic (or, for the unchecked forms, be UB) by themselves.
function (generic arguments and closure suffixes stripped; closures count towards their parent) -> {kind: count}.
Bootstrapped on the repaired pinned tree over the four feature configurations, then read site by site:

  slice / slice_from of &[T], &[T;N], &str, &Graphemes   `&self[range]`: the cursors come from this input (Input's safety contract; READER-SIB /
                                                         INPUT-MISC pin how cursors advance: always to a token / char boundary inside the input)
  &str / &Graphemes next_maybe: unwrap_unchecked         guarded by `cursor < len` on the same path (INPUT-MISC boundary clause)
  ParseResult::unwrap                                    documented: panics when the parse produced errors (user opt-in)
  [T;N]::drop_before / write, Group<[P;N]>::go           index < N by the loop bound (MAYBEUNINIT / CONTAINER-PROV)
  Collect / Foldl(With) / Foldr(With) / Repeated / SeparatedBy ::go, Flatten::next (nightly)
                                                         the debug-only "found Parser that consumes no input" progress assertion
                                                         (cfg(debug_assertions); NONCONSUMPTION-FWD decides that it cannot fire for an inner
                                                         parser that may legitimately consume nothing)
  MapErrWithState / recovery strategies / InputRef::parse,check: unwrap
                                                         the "Can't fail!" unwraps of the pending error after a child returned Err:
                                                         PFAIL decides on every path that the slot is Some there
  Unwrapped::go, Todo::go                                documented user-error panics (`unwrapped()` on None/Err, `todo()` reached)
  RichReason::inner_fmt                                  Display formatting only (expected.last() on a non-empty list, guarded by len)
  IoInput::next: unwrap                                  seek failure of the underlying reader: I/O, outside C20's claim (DESIGN §6)
  Recursive::define / parser / go                        documented: defining twice, using a recursive parser before definition or after
                                                         its owner was dropped
  regex::regex                                           invalid pattern at construction time (not during a parse)
  Span::union                                            assert_eq! on the contexts of the two spans (user-supplied spans)
  Grapheme::split                                        chars().next() on a grapheme: never empty by construction (Grapheme::new is private)
"""

PANIC_SITES = {
    "&'src [T; N][input::SliceInput]::slice": {"index": 1},
    "&'src [T; N][input::SliceInput]::slice_from": {"index": 1},
    "&'src [T][input::SliceInput]::slice": {"index": 1},
    "&'src [T][input::SliceInput]::slice_from": {"index": 1},
    "&'src str[input::Input]::next_maybe": {"unwrap_unchecked": 1},
    "&'src str[input::SliceInput]::slice": {"index": 1},
    "&'src str[input::SliceInput]::slice_from": {"index": 1},
    "&'src text::unicode::Graphemes[input::Input]::next_maybe": {"unwrap_unchecked": 1},
    "&'src text::unicode::Graphemes[input::SliceInput]::slice": {"index": 1},
    "&'src text::unicode::Graphemes[input::SliceInput]::slice_from": {"index": 1},
    "ParseResult::unwrap": {"panic": 1, "expect": 1},
    "[T; N][container::ContainerExactly]::drop_before": {"index": 1},
    "[T; N][container::ContainerExactly]::write": {"BoundsCheck": 1},
    "combinator::Collect[Parser]::go": {"panic": 1},
    "combinator::Flatten[IterParser]::next": {"panic": 1},
    "combinator::FoldlWith[Parser]::go": {"panic": 1},
    "combinator::Foldl[Parser]::go": {"panic": 1},
    "combinator::FoldrWith[Parser]::go": {"panic": 1},
    "combinator::Foldr[Parser]::go": {"panic": 1},
    "combinator::MapErrWithState[Parser]::go": {"unwrap": 1},
    "combinator::Repeated[Parser]::go": {"panic": 2},
    "combinator::SeparatedBy[Parser]::go": {"panic": 1},
    "combinator::Unwrapped[Parser]::go": {"panic": 1},
    "error::RichReason::inner_fmt": {"index": 1, "unwrap": 1},
    "input::InputRef::check": {"unwrap": 1},
    "input::InputRef::parse": {"unwrap": 1},
    "input::IoInput[input::ValueInput]::next": {"unwrap": 1},
    "primitive::Group[Parser]::go": {"index": 1, "BoundsCheck": 1},
    "primitive::Todo[Parser]::go": {"panic": 1},
    "recovery::SkipThenRetryUntil[recovery::Strategy]::recover": {"unwrap": 1},
    "recovery::SkipUntil[recovery::Strategy]::recover": {"unwrap": 1},
    "recovery::ViaParser[recovery::Strategy]::recover": {"unwrap": 1},
    "recursive::Recursive::define": {"panic": 1},
    "recursive::Recursive::parser": {"expect": 1},
    "recursive::Recursive[Parser]::go": {"expect": 1},
    "regex::regex": {"expect": 1},
    "span::Span::union": {"panic": 1},
    "text::unicode::Grapheme::split": {"unwrap": 1},
}

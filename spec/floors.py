"""Instance-count floors: the numbers counted on the pinned tree (per feature configuration),
stored in floors.json (regenerated only by tools/gen_floors.py on a tree I have reviewed).
A rule that matches fewer instances than its floor fails closed (the anchor moved or the
analysis lost coverage) instead of passing vacuously."""
import json
import os

_P = os.path.join(os.path.dirname(os.path.abspath(__file__)), "floors.json")
FLOORS = json.load(open(_P)) if os.path.exists(_P) else {}
MEASURED = {}


def get(facts, key, default=0):
    """Required instance count = the count on the reviewed tree minus a small slack (one instance, or 10%): a floor guards
    against a rule that silently lost its anchors (counts collapse to zero or a fraction), not against a refactor that
    merges two call sites; what a rule demands of each instance is checked instance by instance."""
    n = FLOORS.get(facts.config, {}).get(key, default)
    if n <= 1:
        return n
    return max(1, n - max(1, n // 10))

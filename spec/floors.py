"""Instance-count floors: the numbers counted on the pinned tree (per feature configuration),
stored in floors.json (regenerated only by tools/gen_floors.py on a tree I have reviewed).
A rule that matches fewer instances than its floor fails closed (the anchor moved or the
analysis lost coverage) instead of passing vacuously."""
import json
import os

_P = os.path.join(os.path.dirname(os.path.abspath(__file__)), "floors.json")
FLOORS = json.load(open(_P)) if os.path.exists(_P) else {}
MEASURED = {}


def get(facts, key, default=0):
    return FLOORS.get(facts.config, {}).get(key, default)

//! Type-level witnesses: each item documents one clause with a `compile_fail,E0xxx` doctest (the violating
//! program must not build, with exactly that error) and a compiling twin.
#![allow(dead_code)]

/// W1 (C03): `ParseResult`'s fields are private — user code cannot forge a result with errors and Ok.
///
/// ```compile_fail,E0616
/// use chumsky::prelude::*;
/// let r = just::<_, &str, extra::Default>('a').parse("a");
/// let _ = r.errs.len();               // private field
/// ```
/// twin:
/// ```
/// use chumsky::prelude::*;
/// let r = just::<_, &str, extra::Default>('a').parse("a");
/// let _ = r.errors().len();
/// ```
pub struct W1;

/// W1b (C03): `ParseResult::new` is crate-private.
///
/// ```compile_fail,E0624
/// let _ = chumsky::ParseResult::<u8, ()>::new(Some(1u8), vec![()]);
/// ```
pub struct W1b;

/// W2 (C03/C04): the `Mode` machinery is unnameable outside the crate, so `Parser::go` cannot be called
/// directly and `parse`/`check` (which append `then_ignore(end())`) are the only entry points.
///
/// ```compile_fail,E0603
/// use chumsky::prelude::*;
/// type M = chumsky::private::Emit;     // module `private` is private
/// ```
/// twin:
/// ```
/// use chumsky::prelude::*;
/// assert!(!just::<_, &str, extra::Default>('a').parse("a").has_errors());
/// ```
pub struct W2;

/// W3 (C18/C05): a custom parser cannot reposition the input except through the hooked primitives:
/// `InputRef`'s cursor and error lists are private.
///
/// ```compile_fail,E0616
/// use chumsky::prelude::*;
/// let p = custom::<_, &str, (), extra::Default>(|inp| {
///     inp.cursor = 0;                  // private field
///     Ok(())
/// });
/// ```
/// ```compile_fail,E0616
/// use chumsky::prelude::*;
/// let p = custom::<_, &str, (), extra::Default>(|inp| {
///     let _ = &inp.errors;             // private field
///     Ok(())
/// });
/// ```
/// twin:
/// ```
/// use chumsky::prelude::*;
/// let p = custom::<_, &str, (), extra::Default>(|inp| {
///     let before = inp.save();
///     let _ = inp.next();
///     inp.rewind(before);
///     Ok(())
/// });
/// assert!(!p.parse("").has_errors());
/// ```
pub struct W3;

/// W4 (C08/C14): `Strategy`, `Char` are sealed — the recovery and text contracts are closed over the
/// implementations analysed in the crate.
///
/// ```compile_fail,E0277
/// use chumsky::{prelude::*, recovery::Strategy, input::InputRef};
/// struct Mine;
/// impl<'src> Strategy<'src, &'src str, (), extra::Default> for Mine {}
/// ```
/// ```compile_fail,E0277
/// #[derive(Copy, Clone, PartialEq)]
/// struct MyChar;
/// impl chumsky::text::Char for MyChar {
///     fn is_inline_whitespace(&self) -> bool { false }
///     fn is_whitespace(&self) -> bool { false }
///     fn is_newline(&self) -> bool { false }
///     fn digit_zero() -> Self { MyChar }
///     fn is_digit(&self, _: u32) -> bool { false }
///     fn is_ident_start(&self) -> bool { false }
///     fn is_ident_continue(&self) -> bool { false }
///     fn to_ascii(&self) -> Option<u8> { None }
/// }
/// ```
pub struct W4;

/// W6 (C07): `to_slice` is only available on inputs that can hand out sub-slices of the caller's buffer.
///
/// ```compile_fail,E0277
/// use chumsky::{prelude::*, input::Stream};
/// fn p<'a>() -> impl Parser<'a, Stream<std::vec::IntoIter<char>>, ()> {
///     any().repeated().to_slice().ignored()      // Stream is not a SliceInput
/// }
/// ```
/// twin:
/// ```
/// use chumsky::prelude::*;
/// fn p<'a>() -> impl Parser<'a, &'a str, &'a str> {
///     any().repeated().to_slice()
/// }
/// assert_eq!(p().parse("ab").into_result(), Ok("ab"));
/// ```
pub struct W6;

/// W7 (C13): `Boxed` parsers are `Rc`-based: neither `Send` nor `Sync`; by-value combinators of `Sync`
/// parts are `Sync` (no hidden shared state).
///
/// ```compile_fail,E0277
/// use chumsky::prelude::*;
/// fn assert_sync<T: Sync>(_: &T) {}
/// let p = just::<_, &str, extra::Default>('a').boxed();
/// assert_sync(&p);
/// ```
/// twin:
/// ```
/// use chumsky::prelude::*;
/// fn assert_sync<T: Sync + Send>(_: &T) {}
/// let p = just::<_, &str, extra::Default>('a').then(just('b')).repeated().collect::<Vec<_>>().or_not();
/// assert_sync(&p);
/// ```
pub struct W7;

/// W8 (C15): the context handed to user code is a shared reference — a consumer cannot overwrite it for
/// its siblings.
///
/// ```compile_fail,E0594
/// use chumsky::prelude::*;
/// let p = just::<_, &str, extra::Context<usize>>('a').map_with(|c, e| { *e.ctx() = 1; c });
/// ```
/// twin:
/// ```
/// use chumsky::prelude::*;
/// let p = just::<_, &str, extra::Context<usize>>('a').map_with(|c, e| { let _n: usize = *e.ctx(); c });
/// ```
pub struct W8;

/// W5 (C16): `nested_in` requires the inner and outer parsers to share error, state and context types.
///
/// ```compile_fail,E0277
/// use chumsky::prelude::*;
/// #[derive(Clone, PartialEq, Debug)]
/// enum Tok<'a> { A, Group(&'a [Tok<'a>]) }
/// fn p<'a>() -> impl Parser<'a, &'a [Tok<'a>], (), extra::Err<Simple<'a, Tok<'a>>>> {
///     let inner = just::<_, &'a [Tok<'a>], extra::Err<Cheap>>(Tok::A).ignored();      // different error type
///     inner.nested_in(select_ref! { Tok::Group(g) => *g })
/// }
/// ```
/// twin:
/// ```
/// use chumsky::prelude::*;
/// #[derive(Clone, PartialEq, Debug)]
/// enum Tok<'a> { A, Group(&'a [Tok<'a>]) }
/// fn p<'a>() -> impl Parser<'a, &'a [Tok<'a>], (), extra::Err<Simple<'a, Tok<'a>>>> {
///     let inner = just::<_, &'a [Tok<'a>], extra::Err<Simple<'a, Tok<'a>>>>(Tok::A).ignored();
///     inner.nested_in(select_ref! { Tok::Group(g) => *g })
/// }
/// ```
pub struct W5;

"""Normal form of provenance terms (used by the table rules SPAN-PROV, SPAN-IMPL, CONTAINER-PROV, SEQ-PROV ...).

A provenance term says *which values a result is built from*.  How the code routes those values is plumbing and must not
matter to a rule: `opt.unwrap_or_else(|| d)` vs `match opt { Some(v) => v, None => d }`, `x.map(|t| f(t))` vs `let t = x?; Some(f(t))`,
a closure vs straight-line code, a method vs the sibling method it delegates to, `Range { start, end }` built through named locals.
The normal form erases exactly that:

  * `Some(v)` / `Ok(v)` / the payload projection `(x as Some).0` / `Try::branch` / `from_output`  ->  v        (option erasure)
  * `unwrap_or(x, d)`, `unwrap_or_else(x, c)`, `map_or(x, d, c)`, `map_or_else(x, c0, c)`  ->  alternatives  x | d   (c applied)
  * `map(x, c)`, `and_then(x, c)`, `then(c)`, `filter` ...                                 ->  c(x)              (beta-reduction)
  * closures are applied to their arguments (captured variables substituted)
  * a call to a crate-local function / inherent or resolved trait method is replaced by the normal form of what it returns
    (bounded depth, non-recursive), so delegation to a sibling is the sibling's body
  * a term with alternatives inside (`Range{start: a|b, ..}`) is expanded to the set of alternative-free terms

The result is a set of strings: every concrete value the expression can evaluate to, in terms of parameters and opaque leaf calls.
"""
import itertools
import re

import mirq
from mirq import Prov, operand_place, callee_of, assigns, calls

ERASE_VARIANTS = {"Some", "Ok", "Continue"}
TRANSPARENT_CALLS = {"branch", "from_output", "into_iter", "iter", "iter_mut", "by_ref", "as_slice", "as_mut_slice", "as_str", "cast", "cast_mut", "cast_const",
                     "as_ptr", "as_mut_ptr", "copied", "cloned"}
MAX_ALTS = 256


class NProv(Prov):
    """Prov with closure identity, resolved local callees and Option-payload erasure.  `path` restricts definitions to one CFG path."""

    def __init__(self, body, facts, path=None):
        self.facts = facts
        self.body = body
        self.max_depth = 40
        if path is None:
            Prov.__init__(self, body)
        else:
            self.defs = {}
            for bb, _ in path:
                bl = body["blocks"][bb]
                for s in bl["stmts"]:
                    if s["k"] == "assign" and not s["place"]["p"]:
                        self.defs[s["place"]["l"]] = [("rv", s["rv"], s.get("line"))]
                t = bl["term"]
                if t["k"] == "call" and not t["dest"]["p"]:
                    self.defs[t["dest"]["l"]] = [("call", t, bl["line"])]

    def fields_of(self, place, depth=0):
        out = []
        skip = False
        for e in place["p"]:
            if isinstance(e, dict):
                if "dc" in e:
                    skip = e["dc"] in ERASE_VARIANTS
                    if not skip:
                        out.append("as " + str(e["dc"]))
                    continue
                if "f" in e:
                    if skip:
                        skip = False
                        continue          # payload of Some / Ok: erased
                    out.append(e["n"] if e.get("n") is not None else str(e["f"]))
                elif "i" in e and depth < 6:
                    out.append("[%s]" % mirq.fmt_roots(self.of_local(e["i"], depth + 1)))
                elif "ci" in e:
                    out.append("[%s]" % e["ci"])
        return out

    def of_rvalue(self, r, depth, line=None):
        if r["k"] == "agg" and r.get("ak") == "closure":
            cb = self.facts.by_key.get(r["closure_key"])
            names = (cb or {}).get("upvars") or []
            ups = []
            for i, o in enumerate(r["ops"]):
                v = frozenset(self.of_operand(o, depth + 1))
                ups.append((str(i), v))
                if i < len(names) and names[i] is not None:
                    ups.append((str(names[i]), v))
            return {("closure", r["closure_key"], tuple(ups))}
        if r["k"] == "agg" and r.get("ak") == "adt" and r.get("variant") in ERASE_VARIANTS and len(r["ops"]) == 1 \
                and r["adt"] in ("std::option::Option", "std::result::Result", "std::ops::ControlFlow"):
            return self.of_operand(r["ops"][0], depth)
        if r["k"] == "agg" and r.get("ak") == "array":
            return {("array", tuple(frozenset(self.of_operand(o, depth + 1)) for o in r["ops"]))}
        if r["k"] == "cast":
            return self.of_operand(r["op"], depth) if not (r.get("ck") == "IntToInt" and mirq._narrowing(r.get("from_ty"), r.get("ty"))) \
                else Prov.of_rvalue(self, r, depth, line)
        return Prov.of_rvalue(self, r, depth, line)

    def of_local(self, l, depth=0):
        body = self.body
        if 1 <= l <= body["arg_count"]:
            return {("arg", l)}
        if depth > self.max_depth:
            return {("local", l)}
        ds = self.defs.get(l)
        if not ds:
            return {("local", l)}
        out = set()
        for d in ds:
            if d[0] == "rv":
                out |= self.of_rvalue(d[1], depth + 1, d[2])
            else:
                t = d[1]
                f = callee_of(t)
                nm = f["name"] if f else "<indirect>"
                if f is not None and (self.transparent(f) or (nm in TRANSPARENT_CALLS and f.get("krate") != "chumsky")):
                    out |= self.of_operand(t["args"][0]["op"], depth + 1)
                elif f is not None and nm in ("next", "next_back") and f.get("krate") != "chumsky" and "Iterator" in (f.get("trait") or "") \
                        and len(t["args"]) == 1:
                    # the item an explicit `for` loop / `while let Some(x) = it.next()` hands to its body
                    out.add(("call", "elem" if nm == "next" else "elem_back", None, (frozenset(self.of_operand(t["args"][0]["op"], depth + 1)),), None))
                else:
                    args = tuple(frozenset(self.of_operand(a["op"], depth + 1)) for a in t["args"])
                    out.add(("call", nm, f.get("trait") if f else None, args, _callee_id(f)))
        return out


def _callee_id(f):
    """Identity of a crate-local callee whose body is known statically: a free fn / inherent method, or a trait method that
    Instance::resolve pinned to one impl.  (A trait method on a generic receiver stays an opaque leaf.)"""
    if f is None or f.get("krate") != "chumsky":
        return None
    res = f.get("resolved")
    if res is not None:
        return (res.get("path"), f.get("self_ty"), f.get("trait")) if res.get("local") else None
    if f.get("trait"):
        return None
    return (f.get("path"), f.get("self_ty"), None)


# ------------------------------------------------------------------ substitution

def project(roots, fields):
    if not fields:
        return set(roots)
    out = set()
    for r in roots:
        if r[0] == "arg":
            out.add(r + tuple(fields))
        elif r[0] == "aggf":
            d = dict(r[2])
            if fields[0] in d:
                out |= project(d[fields[0]], fields[1:])
            else:
                out.add(("field", r) + tuple(fields))
        elif r[0] == "closure":
            d = dict(r[2])
            if fields[0] in d:
                out |= project(d[fields[0]], fields[1:])
            else:
                out.add(("field", r) + tuple(fields))
        elif r[0] == "field":
            out.add(r + tuple(fields))
        else:
            out.add(("field", r) + tuple(fields))
    return out


def subst(x, mapping):
    """Replace ('arg', i, *fields) by mapping[i] projected on fields, everywhere in a root / root set."""
    if isinstance(x, (set, frozenset)):
        out = set()
        for r in x:
            out |= subst_root(r, mapping)
        return frozenset(out)
    return x


def subst_root(r, mapping):
    if not isinstance(r, tuple):
        return {r}
    k = r[0]
    if k == "arg":
        if r[1] in mapping:
            return project(mapping[r[1]], r[2:])
        return {r}
    if k == "field":
        return project(subst_root(r[1], mapping), r[2:])
    if k == "call":
        return {("call", r[1], r[2], tuple(subst(a, mapping) for a in r[3])) + tuple(r[4:])}
    if k == "aggf":
        return {("aggf", r[1], tuple((n, subst(v, mapping)) for n, v in r[2]))}
    if k == "closure":
        return {("closure", r[1], tuple((n, subst(v, mapping)) for n, v in r[2]))}
    if k == "bin":
        return {("bin", r[1], subst(r[2], mapping), subst(r[3], mapping))}
    if k == "un":
        return {("un", r[1], subst(r[2], mapping))}
    if k == "array":
        return {("array", tuple(subst(v, mapping) for v in r[1]))}
    if k == "discr":
        return {("discr", subst(r[1], mapping)) + tuple(r[2:])}
    return {r}


# ------------------------------------------------------------------ normaliser

class Normalizer:
    def __init__(self, facts, inline_local=True, max_inline=4):
        self.facts = facts
        self.inline_local = inline_local
        self.max_inline = max_inline
        self._ret_cache = {}
        self._by_path = None

    # -- return roots of a body, flow-insensitive
    def ret_roots(self, body):
        k = body["key"]
        if k not in self._ret_cache:
            self._ret_cache[k] = None
            self._ret_cache[k] = frozenset(NProv(body, self.facts).of_local(0))
        return self._ret_cache[k]

    def closure_apply(self, clo, params, stack):
        cb = self.facts.by_key.get(clo[1])
        if cb is None or clo[1] in stack or len(stack) > 6:
            return None
        rr = self.ret_roots(cb)
        if rr is None:
            return None
        mapping = {1: {clo}}
        for i, p in enumerate(params):
            mapping[2 + i] = set(p)
        return subst(rr, mapping), stack + (clo[1],)

    def local_body(self, cid):
        if cid is None:
            return None
        if self._by_path is None:
            self._by_path = {}
            for b in self.facts.bodies:
                if b["kind"] == "Closure":
                    continue
                self._by_path.setdefault(b.get("path"), []).append(b)
        path = cid[0]
        cands = self._by_path.get(path) or []
        if len(cands) == 1:
            return cands[0]
        return None

    # -- alternatives (set of strings) of a root set
    def alts(self, roots, stack=()):
        out = set()
        for r in roots:
            out |= self.alts_root(r, stack)
            if len(out) > MAX_ALTS:
                break
        return out

    def _prod(self, parts, fmt):
        """parts: list of alternative sets; fmt: tuple of strings -> string."""
        n = 1
        for p in parts:
            n *= max(1, len(p))
        if n > MAX_ALTS:
            parts = [{"|".join(sorted(p))} for p in parts]
        return {fmt(c) for c in itertools.product(*[sorted(p) if p else ["?"] for p in parts])}

    def alts_root(self, r, stack):
        if not isinstance(r, tuple):
            return {str(r)}
        k = r[0]
        if k == "arg":
            fl = list(r[2:])
            if "[0]" in fl:
                i = fl.index("[0]")
                return {"elem(arg%d%s)%s" % (r[1], "".join("." + x for x in fl[:i]), "".join("." + x for x in fl[i + 1:]))}
            return {"arg%d%s" % (r[1], "".join("." + x for x in fl))}
        if k == "const":
            return {"const %s" % r[1]}
        if k == "local":
            return {"?"}
        if k == "fn":
            return {"fn:" + str(r[1]).split("::")[-1]}
        if k == "field":
            base = self.alts_root(r[1], stack)
            if r[2:] and r[2] == "[0]":
                return {"elem(%s)" % b + "".join("." + x for x in r[3:]) for b in base}
            return {b + "".join("." + x for x in r[2:]) for b in base}
        if k == "aggf":
            name = r[1].split("::")[-2] if "::" in r[1] else r[1]
            names = [n for n, _ in r[2]]
            parts = [self.alts(v, stack) for _, v in r[2]]
            return self._prod(parts, lambda c: "%s{%s}" % (name, ", ".join("%s: %s" % (n, x) for n, x in zip(names, c))))
        if k == "array":
            parts = [self.alts(v, stack) for v in r[1]]
            return self._prod(parts, lambda c: "[%s]" % ", ".join(c))
        if k == "bin":
            return self._prod([self.alts(r[2], stack), self.alts(r[3], stack)], lambda c: "%s(%s, %s)" % (r[1], c[0], c[1]))
        if k == "un":
            return self._prod([self.alts(r[2], stack)], lambda c: "%s(%s)" % (r[1], c[0]))
        if k == "discr":
            return self._prod([self.alts(r[1], stack)], lambda c: "discr(%s)" % c[0])
        if k == "closure":
            return {"closure"}
        if k == "agg":
            return {str(r[1])}
        if k == "call":
            return self.alts_call(r, stack)
        return {str(r)}

    def _clo(self, rs):
        cs = [x for x in rs if isinstance(x, tuple) and x[0] == "closure"]
        return cs[0] if len(cs) == 1 and len(rs) == 1 else None

    def alts_call(self, r, stack):
        nm, args = r[1], r[3]
        cid = r[4] if len(r) > 4 else None

        def applied(ci, params):
            clo = self._clo(args[ci]) if ci < len(args) else None
            if clo is None:
                # a function item used as the callback: `x.map(Grapheme::new)` == `x.map(|s| Grapheme::new(s))`
                fns = [x for x in (args[ci] if ci < len(args) else ()) if isinstance(x, tuple) and x[0] == "fn"]
                if len(fns) == 1 and len(args[ci]) == 1:
                    fnm = str(fns[0][1]).split("::")[-1]
                    parts = [self.alts(p_, stack) for p_ in params]
                    return self._prod(parts, lambda c: "%s(%s)" % (fnm, ", ".join(c)))
                return None
            res = self.closure_apply(clo, params, stack)
            if res is None:
                return None
            return self.alts(res[0], res[1])
        # ---- Option / Result / iterator plumbing (std only)
        if cid is None and nm in ("index", "index_mut") and len(args) == 2 and \
                all(isinstance(x, tuple) and x[0] == "aggf" and "RangeFull" in x[1] for x in args[1]) and args[1]:
            return self.alts(args[0], stack)            # `&v[..]`: the whole sequence
        if cid is None:
            if nm in ("unwrap_or_else", "unwrap_or_default") and len(args) >= 1:
                d = applied(1, []) if len(args) > 1 else {"default()"}
                if d is not None:
                    return self.alts(args[0], stack) | d
            if nm == "unwrap_or" and len(args) == 2:
                return self.alts(args[0], stack) | self.alts(args[1], stack)
            if nm in ("map", "and_then", "inspect", "map_err") and len(args) == 2:
                src = args[0]
                if "Iterator" in (r[2] or ""):
                    src = frozenset({("call", "elem", None, (args[0],), None)})
                a = applied(1, [src])
                if a is not None:
                    return a if nm != "inspect" else self.alts(args[0], stack)
            if nm == "map_or" and len(args) == 3:
                a = applied(2, [args[0]])
                if a is not None:
                    return self.alts(args[1], stack) | a
            if nm == "map_or_else" and len(args) == 3:
                a = applied(2, [args[0]])
                d = applied(1, [])
                if a is not None and d is not None:
                    return a | d
            if nm in ("then", "then_some") and len(args) == 2:
                a = applied(1, []) if nm == "then" else self.alts(args[1], stack)
                if a is not None:
                    return a | {"Option{}"}
            if nm in ("ok_or", "ok_or_else", "ok", "unwrap", "expect", "unwrap_unchecked", "unwrap_or_default") and args:
                return self.alts(args[0], stack)
            if nm in ("or", "or_else") and len(args) == 2:
                d = self.alts(args[1], stack) if nm == "or" else applied(1, [])
                if d is not None:
                    return self.alts(args[0], stack) | d
            if nm in ("call", "call_mut", "call_once") and len(args) == 2:
                clo = self._clo(args[0])
                tup = [x for x in args[1] if isinstance(x, tuple) and x[0] == "aggf" and x[1] == "tuple"]
                if clo is not None and len(tup) == 1 and len(args[1]) == 1:
                    res = self.closure_apply(clo, [v for _, v in tup[0][2]], stack)
                    if res is not None:
                        return self.alts(res[0], res[1])
            if nm == "from_residual":
                return {"Option{}"}
        # ---- delegation to a crate-local function: what it returns, with the arguments substituted
        if cid is not None and self.inline_local and len(stack) < self.max_inline:
            cb = self.local_body(cid)
            if cb is not None and cb["key"] not in stack and not mirq.loops(cb):
                rr = self.ret_roots(cb)
                if rr is not None and not any(x[0] == "local" for x in rr):
                    mapping = {i + 1: set(a) for i, a in enumerate(args)}
                    return self.alts(subst(rr, mapping), stack + (cb["key"],))
        parts = [self.alts(a, stack) for a in args]
        return self._prod(parts, lambda c: "%s(%s)" % (nm, ", ".join(c)))

    # -- public helpers
    def value_paths(self, body, local=0, limit=20000):
        """Union over CFG paths of the alternative-free terms of `local` at the end of the path."""
        vals = set()
        for path in mirq.paths(body, limit=limit):
            if path and path[-1][1] == "loop":
                continue
            pv = NProv(body, self.facts, path)
            vals |= self.alts(pv.of_local(local))
        return sorted(vals)

    def value_flow(self, body, local=0):
        return sorted(self.alts(NProv(body, self.facts).of_local(local)))


# ------------------------------------------------------------------ effects (what a small body DOES, plumbing erased)

PLUMBING_CALLS = {"deref", "deref_mut", "borrow", "borrow_mut", "as_ref", "as_mut", "into_iter", "iter", "iter_mut", "next", "next_back", "branch",
                  "from_residual", "from_output", "as_slice", "as_mut_slice", "as_str", "cast", "cast_mut", "cast_const", "as_ptr", "as_mut_ptr",
                  "by_ref", "clone", "into", "from", "copied", "cloned", "to_owned",
                  "then_some", "unwrap_or", "unwrap_or_default", "ok_or", "ok", "is_none", "is_some", "is_ok", "is_err", "as_deref", "take_found_"}
OPTION_ADAPTORS = {"map": 1, "and_then": 1, "map_or": 2, "map_or_else": 2, "unwrap_or_else": 1, "ok_or_else": 1, "or_else": 1, "then": 1,
                   "is_some_and": 1, "is_none_or": 1, "filter": 1, "inspect": 1}
EACH_ADAPTORS = {"for_each": 1, "any": 1, "all": 1, "map": 1, "filter": 1, "find": 1, "position": 1, "try_for_each": 1, "filter_map": 1,
                 "find_map": 1, "inspect": 1, "take_while": 1, "skip_while": 1, "retain": 1}


def _in_loop_flag(body, blk, loops_, rets):
    """always / sometimes for a call outside loops; each / each-sometimes relative to one iteration of its innermost loop."""
    inner = None
    for h, blocks in loops_:
        if blk in blocks and (inner is None or len(blocks) < len(inner[1])):
            inner = (h, blocks)
    if inner is None:
        return "always" if not (mirq.reachable(body, 0, avoid={blk}) & rets) else "sometimes"
    h, blocks = inner
    # from the header, can the back edge (a predecessor of h inside the loop) be reached inside the loop without passing blk?
    seen = set()
    work = [x for x in mirq.succs(body, h) if x in blocks and x != blk]
    skipped = False
    while work:
        x = work.pop()
        if x in seen:
            continue
        seen.add(x)
        for y in mirq.succs(body, x):
            if y == h:
                skipped = True
            elif y in blocks and y != blk and y not in seen:
                work.append(y)
    if blk == h:
        skipped = False
    return "each-sometimes" if skipped else "each"


def _effects(N, body, mapping, stack, in_each):
    facts = N.facts
    pv = NProv(body, facts)
    rets = set(mirq.return_blocks(body))
    loops_ = mirq.loops(body)
    out = []
    for i, bl, t, f in calls(body):
        if f is None:
            nm = "<indirect>"
        else:
            nm = f["name"]
            if nm in PLUMBING_CALLS and f.get("krate") != "chumsky":
                continue
            if "precondition_check" in nm or "panic" in mirq.callee_path(f):
                continue
        flag = "each" if in_each else _in_loop_flag(body, i, loops_, rets)
        argr = [frozenset(pv.of_operand(a["op"])) for a in t["args"]]
        if mapping:
            argr = [subst(a, mapping) for a in argr]
        # iterator adaptor with a closure: what the closure does to each element
        is_iter = f is not None and "Iterator" in (f.get("trait") or "")
        adapt = None
        if f is not None and f.get("krate") != "chumsky":
            if is_iter and nm in EACH_ADAPTORS:
                adapt = EACH_ADAPTORS[nm]
            elif not is_iter and nm in OPTION_ADAPTORS:
                adapt = OPTION_ADAPTORS[nm]
        if adapt is not None and len(argr) > adapt:
            clo = N._clo(argr[adapt])
            cb = facts.by_key.get(clo[1]) if clo is not None else None
            src = frozenset({("call", "elem", None, (argr[0],), None)}) if is_iter else argr[0]
            if cb is not None and cb["key"] not in stack:
                m2 = {1: {clo}, 2: src}
                sub = _effects(N, cb, m2, stack + (cb["key"],), True if is_iter else in_each)
                if not is_iter:
                    # the callback of an Option adaptor runs only for Some / None
                    sub = [(t_, "sometimes" if fl_ == "always" else fl_) for t_, fl_ in sub]
                out.extend(sub)
                continue
            fns = [x for x in argr[adapt] if isinstance(x, tuple) and x[0] == "fn"]
            if len(fns) == 1 and len(argr[adapt]) == 1:
                # a function item used as the callback: `xs.all(char::is_whitespace)` == `xs.all(|c| c.is_whitespace())`
                fnm = str(fns[0][1]).split("::")[-1]
                for term in sorted(N.alts(src, stack)):
                    out.append(("%s(%s)" % (fnm, term), "each" if is_iter else flag))
                continue
            if not is_iter and cb is None and not fns:
                continue        # e.g. unwrap_or_else with an opaque callable: plumbing
        # invocation of a closure value built in this body (or handed down by an inlined caller): what the closure does
        if f is not None and nm in ("call", "call_mut", "call_once") and f.get("krate") != "chumsky" and len(argr) == 2:
            clo = N._clo(argr[0])
            cb = facts.by_key.get(clo[1]) if clo is not None else None
            tup = [x for x in argr[1] if isinstance(x, tuple) and x[0] == "aggf" and x[1] == "tuple"]
            if cb is not None and cb["key"] not in stack and len(tup) == 1 and len(argr[1]) == 1:
                m2 = {1: {clo}}
                for k, (_, v) in enumerate(tup[0][2]):
                    m2[2 + k] = set(v)
                out.extend(_effects(N, cb, m2, stack + (cb["key"],), in_each))
                continue
        # delegation to a crate-local function: its effects
        cid = _callee_id(f)
        if cid is not None and len(stack) < N.max_inline:
            cb = N.local_body(cid)
            if cb is not None and cb["key"] not in stack and cb["key"] != body["key"]:
                m2 = {k + 1: set(a) for k, a in enumerate(argr)}
                sub = _effects(N, cb, m2, stack + (cb["key"],), in_each)
                if flag not in ("always", "each"):
                    sub = [(term, fl if fl not in ("always",) else flag) for term, fl in sub]
                out.extend(sub)
                continue
        root = ("call", nm, f.get("trait") if f else None, tuple(argr), None)
        for term in sorted(N.alts_root(root, stack)):
            if "(" in term:                 # a bare value (an erased wrapper, a default alternative) is not an effect
                out.append((term, flag))
    return out


def effects(N, body):
    """Sorted list of 'term [flag]': the maximal call terms of `body` in normal form (a call that only feeds another listed call, or
    the plumbing of iteration / Option handling, is not an effect of its own)."""
    es = _effects(N, body, None, (body["key"],), False)
    # appending every element of a sequence: `v.extend(xs)` on every path  ==  `for x in xs { v.push(x) }`
    es = [((("push(" + t[len("extend("):]), "each") if (t.startswith("extend(") and fl == "always" and "elem(" in t) else (t, fl)) for t, fl in es]
    terms = sorted(set(es))
    keep = []
    for term, fl in terms:
        if any(term != o and term in o for o, _ in terms):
            continue
        keep.append("%s [%s]" % (term, fl))
    return sorted(set(keep))


# ------------------------------------------------------------------ equality up to renaming of private identifiers

_IDENT = re.compile(r"[A-Za-z_][A-Za-z_0-9]*")


def equal_up_to_renaming(got, want, max_names=3, canon=None):
    """Two signatures (lists of strings) that differ only by a one-to-one renaming of at most `max_names` identifiers that occur on one
    side only - a private field or local type renamed consistently (`last_cursor` -> `reader_pos`, `regex` -> `matcher`).  A wrong operand
    uses a name that exists on both sides and is not affected."""
    import itertools
    g, w = sorted(got), sorted(want)
    if g == w:
        return True
    ig = set(_IDENT.findall(re.sub(r'"[^"]*"', '""', " ".join(g))))
    iw = set(_IDENT.findall(re.sub(r'"[^"]*"', '""', " ".join(w))))
    og, ow = sorted(ig - iw), sorted(iw - ig)
    if not og or len(og) != len(ow) or len(og) > max_names:
        return False
    # only FIELD names are renameable: an identifier that (also) occurs as a function / module / type name - `unicode::ident()` for
    # `ascii::ident()` - is a different callee, not a renamed field
    fieldish = re.compile(r"(?<=\.)[A-Za-z_][A-Za-z_0-9]*(?![A-Za-z_0-9]*[(:]{1}[:(]?)|[A-Za-z_][A-Za-z_0-9]*(?=: )")

    def only_fields(names, text):
        text = re.sub(r'"[^"]*"', '""', text)          # words inside string literals are not identifiers
        f_ = set(fieldish.findall(text))
        for n_ in names:
            occ = len(re.findall(r"(?<![A-Za-z_0-9])%s(?![A-Za-z_0-9])" % re.escape(n_), text))
            as_field = len(re.findall(r"(?:(?<=\.)%s(?![A-Za-z_0-9(:])|(?<![A-Za-z_0-9.])%s(?=: ))" % (re.escape(n_), re.escape(n_)), text))
            if n_ not in f_ or occ != as_field:
                return False
        return True
    if not only_fields(og, " ".join(g)) or not only_fields(ow, " ".join(w)):
        return False
    for perm in itertools.permutations(ow):
        ren = dict(zip(og, perm))
        g2 = sorted(_IDENT.sub(lambda m: ren.get(m.group(0), m.group(0)), x) for x in g)
        if canon is not None:
            g2 = sorted(canon(x) for x in g2)
        if g2 == (sorted(canon(x) for x in w) if canon is not None else w):
            return True
    return False

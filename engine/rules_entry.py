"""ENTRY (C03): the top-level entry points run the grammar only as `then_ignore(end())`, push the pending
error whenever there is no output, and ParseResult's accessors are consistent."""
import re

import mirq
from mirq import calls, assigns, callee_of, callee_path, Prov, fmt_roots
from report import RuleResult, V


def loc(b, line=None):
    return b["file"], (line if line is not None else b["line"])


def _switch_var_paths(b, local):
    """For each path: the value taken by switches on `local` (first one), else None."""
    out = []
    for path in mirq.paths(b):
        val = None
        for (bb, idx) in path:
            t = b["blocks"][bb]["term"]
            if t["k"] == "switch" and idx not in (None, "loop"):
                op = mirq.operand_place(t["op"])
                if op is not None and op["l"] == local and not op["p"] and val is None:
                    val = mirq.switch_choice(b, bb, idx)
        out.append((path, val))
    return out


def rule_entry(facts):
    r = RuleResult("ENTRY")
    n_entries = 0
    for q, mode in (("Parser::parse_with_state", "private::Emit"), ("Parser::check_with_state", "private::Check")):
        bs = facts.find(q)
        if len(bs) != 1:
            r.errors.append("anchor %s: %d bodies" % (q, len(bs)))
            continue
        b = bs[0]
        n_entries += 1
        # pieces of the entry point extracted into private helpers (`take_primary_error(&mut inp)`, `finish_parse(res, alt, errs)`) are
        # put back in place at MIR level, so the clauses below read the same function whichever way it is split up; the reviewed
        # primitives (InputOwn / InputRef / ParseResult methods) stay calls
        import nf as _nf
        _N = _nf.Normalizer(facts)

        def _resolve(fn, _N=_N):
            cb = _N.local_body(_nf._callee_id(fn))
            if cb is None or cb.get("public") or cb.get("impl_trait") or cb.get("in_trait"):
                return None
            if re.match(r"^(input::|ParseResult::|private::|extra::)", cb["qname"]) or cb["qname"].startswith(("Parser::", "IterParser::")):
                return None
            return cb
        b = mirq.inline_private_helpers(facts, b, _resolve)
        pv = Prov(b)
        # (a) the grammar is run exactly once, as ThenIgnore<&Self, End<I, E>, (), E>, in the right mode
        gos = [(i, bl, t, f) for i, bl, t, f in calls(b) if f is not None and f.get("trait") in ("Parser", "private::Mode")
               and f["name"] in ("go", "go_emit", "go_check", "invoke")]
        ok = len(gos) == 1
        d = "%d parser invocations" % len(gos)
        if ok:
            i, bl, t, f = gos[0]
            st = re.sub(r"'\w+", "'_", f.get("self_ty", ""))
            margs = [a for a in f.get("args", []) if a in ("private::Emit", "private::Check")]
            ok = bool(re.match(r"^combinator::ThenIgnore<&Self, primitive::End<I, E>, ", st)) and margs[-1:] == [mode]
            recv = pv.of_operand(t["args"][0]["op"])
            # receiver = then_ignore(self, end())
            chain_ok = any(x[0] == "call" and x[1] == "then_ignore" and any(("arg", 1) in a for a in x[3])
                           and any(any(y[0] == "call" and y[1] == "end" for y in a) for a in x[3]) for x in recv)
            ok = ok and chain_ok
            d = "go::<%s> on %s built as %s" % (",".join(margs), st, fmt_roots(recv))
            go_dest = t["dest"]["l"]
        r.ob(ok)
        r.samples.append({q: d})
        if not ok:
            r.violations.append(V("ENTRY", q, "grammar not run as then_ignore(end())",
                                  "%s must invoke the grammar exactly once as `self.then_ignore(end()).go::<%s>` (so that an output "
                                  "implies the whole input was consumed); found %s" % (q.split("::")[-1], mode.split("::")[-1], d), *loc(b)))
            continue
        # (b) on the Err path the pending error is pushed; on the Ok path nothing is pushed; output Some iff Ok
        # how a path learns the outcome: a switch on the discriminant of the result, or on is_ok/is_err of it, or on
        # is_some/is_none of `result.ok()`
        def outcome_of_switch(t, choice):
            op = mirq.operand_place(t["op"])
            if op is None or op["p"]:
                return None
            for x in pv.of_local(op["l"]):
                if x[0] == "discr" and any(y == ("local", go_dest) or (y[0] == "call" and False) for y in x[1]):
                    return {0: "Ok", 1: "Err"}.get(choice)
                if x[0] == "call" and x[1] in ("is_ok", "is_err", "is_some", "is_none") and x[3]:
                    src = x[3][0]
                    direct = any(y == ("local", go_dest) for y in src)
                    via_ok = any(y[0] == "call" and y[1] == "ok" and any(z == ("local", go_dest) for z in y[3][0]) for y in src)
                    if (x[1] in ("is_ok", "is_err") and direct) or (x[1] in ("is_some", "is_none") and via_ok):
                        truth = (choice == "otherwise") if choice in (0, "otherwise") else None
                        if truth is None:
                            return None
                        positive = x[1] in ("is_ok", "is_some")
                        return "Ok" if truth == positive else "Err"
            return None
        # the result local as a provenance root: calls define it, so refer to it by its defining call
        class _P(Prov):
            def of_local(self_, l, depth=0):
                if l == go_dest:
                    return {("local", go_dest)}
                return Prov.of_local(self_, l, depth)
        pv_res = _P(b)
        pv_keep, pv = pv, pv_res
        okb = True
        nerr = nok = 0
        detail = []
        for path in mirq.paths(b):
            val = None
            for (bb, idx) in path:
                t = b["blocks"][bb]["term"]
                if t["k"] == "switch" and idx not in (None, "loop") and val is None:
                    val = outcome_of_switch(t, mirq.switch_choice(b, bb, idx))
            if val is None:
                continue
            pushes = []
            for (bb, idx) in path:
                t = b["blocks"][bb]["term"]
                f = callee_of(t) if t["k"] == "call" else None
                if f is not None and f["name"] in ("push", "extend", "insert", "append", "extend_from_slice", "push_within_capacity"):
                    pushes.append((f["name"], t))
            if val == "Err":
                nerr += 1
                good = len(pushes) == 1 and pushes[0][0] == "push"
                if good:
                    src = pv_keep.of_operand(pushes[0][1]["args"][1]["op"])
                    good = mirq.roots_mention(src, lambda x: isinstance(x, tuple) and x[0] == "call" and x[1] == "take_alt")
                    tgt = pv_keep.of_operand(pushes[0][1]["args"][0]["op"])
                    good = good and mirq.roots_mention(tgt, lambda x: isinstance(x, tuple) and x[0] == "call" and x[1] == "into_errs")
                if not good:
                    okb = False
                    detail.append("Err path pushes %s" % [p[0] for p in pushes])
            else:
                nok += 1
                if pushes:
                    okb = False
                    detail.append("Ok path pushes an error")
        okb = okb and nerr >= 1 and nok >= 1
        r.ob(okb)
        if not okb:
            r.violations.append(V("ENTRY", q, "no-output result without an error",
                                  "on the path where the grammar failed, %s must push the pending primary error (take_alt) onto the "
                                  "error list returned to the caller (exactly one Vec::push), and push nothing on the success path; "
                                  "found: %s" % (q.split("::")[-1], "; ".join(detail) or "no Ok/Err split on the parser result"), *loc(b)))
        # (c) the value handed to ParseResult::new as output is Some exactly on the Ok path
        news = [(bl, t) for _, bl, t, f in calls(b) if f is not None and f["name"] == "new" and "ParseResult" in f["path"]]
        okc = len(news) == 1
        if okc:
            o = pv.of_operand(news[0][1]["args"][0]["op"])
            kinds = sorted(x[1].split("::")[-1] for x in o if x[0] == "aggf")
            # Some(out) on the Ok arm / None on the Err arm, or `result.ok()` (Some iff Ok by definition)
            via_ok = len(o) == 1 and all(x[0] == "call" and x[1] == "ok" and any(z == ("local", go_dest) for z in x[3][0]) for x in o)
            okc = kinds == ["None", "Some"] or via_ok
            e = pv_keep.of_operand(news[0][1]["args"][1]["op"])
            okc = okc and mirq.roots_mention(e, lambda x: isinstance(x, tuple) and x[0] == "call" and x[1] == "into_errs")
        r.ob(okc)
        if not okc:
            r.violations.append(V("ENTRY", q, "ParseResult construction",
                                  "ParseResult::new must receive Some(out)/None per the parser result and the error list of this parse", *loc(b)))
    # parse / check delegate
    for q, tgt in (("Parser::parse", "parse_with_state"), ("Parser::check", "check_with_state")):
        for b in facts.find(q):
            cs = [f for _, _, _, f in calls(b) if f is not None and f.get("trait") == "Parser"]
            ok = [f["name"] for f in cs] == [tgt]
            r.ob(ok)
            if not ok:
                r.violations.append(V("ENTRY", q, "delegation", "%s must delegate to %s; calls %s" % (q, tgt, [f["name"] for f in cs]), *loc(b)))
    # ---- ParseResult accessors
    b = facts.one("ParseResult::into_result")
    pv = Prov(b)
    import nf
    ie = [(i, t) for i, bl, t, f in calls(b) if f is not None and f["name"] == "is_empty" and pv.of_operand(t["args"][0]["op"]) == {("arg", 1, "errs")}]
    ok = len(ie) == 1
    why = "no errs.is_empty() test"
    if ok:
        # per path: what is returned, and what the path knows about errs.is_empty().  Err(errs) is always allowed (an empty error list
        # with no output is still a failure); an Ok-capable value - Ok(<payload of self.output>) or self.output.ok_or(errs) - only under
        # the fact `errs.is_empty()`.  How the two tests are nested (if / guarded match / early return) does not matter.
        dl = ie[0][1]["dest"]["l"]
        N = nf.Normalizer(facts)
        n_ok = n_err = 0
        for path, val in _switch_var_paths(b, dl):
            if path and path[-1][1] == "loop":
                continue
            rets = N.alts(nf.NProv(b, facts, path).of_local(0))
            for rv_ in rets:
                if rv_ == "Result{0: arg1.errs}":
                    n_err += 1
                    continue
                okish = rv_ in ("arg1.output", "Result{0: arg1.output}", "ok_or(arg1.output, arg1.errs)")
                if not okish:
                    ok = False
                    why = "returns %s" % rv_
                elif val is None or val == 0:
                    ok = False
                    why = "an Ok-capable value (%s) is returned on a path where errs.is_empty() is %s" % (rv_, "false" if val == 0 else "not tested")
                else:
                    n_ok += 1
        if ok and not (n_ok >= 1 and n_err >= 1):
            ok = False
            why = "paths returning Ok: %d, Err: %d" % (n_ok, n_err)
    r.ob(ok)
    r.samples.append({"into_result": "Ok only under errs.is_empty() via output.ok_or(errs)" if ok else why})
    if not ok:
        r.violations.append(V("ENTRY", b["qname"], "into_result converts a result with errors to Ok",
                              "into_result must return Err whenever errs is non-empty and Ok only if the output exists: %s" % why, *loc(b)))
    # has_output == output.is_some();  has_errors == !errs.is_empty()  (or errs.len() compared with 0)
    b = facts.one("ParseResult::has_output")
    pv = Prov(b)
    ret = pv.of_local(0)
    ok = bool(ret) and all(x[0] == "call" and x[1] == "is_some" and [set(a) for a in x[3]] == [{("arg", 1, "output")}] for x in ret)
    r.ob(ok)
    if not ok:
        r.violations.append(V("ENTRY", b["qname"], "accessor", "has_output must be self.output.is_some(); returns %s" % fmt_roots(ret), *loc(b)))
    b = facts.one("ParseResult::has_errors")
    pv = Prov(b)
    ret = pv.of_local(0)

    def _is_errs_len(rs):
        return bool(rs) and all(y[0] == "call" and y[1] == "len" and [set(a) for a in y[3]] == [{("arg", 1, "errs")}] for y in rs)

    def _is_zero(rs):
        return bool(rs) and all(y[0] == "const" and re.match(r"^0(_usize)?$", y[1].strip()) for y in rs)
    ok = False
    for x in ret:
        if x[0] == "un" and x[1] == "Not" and all(y[0] == "call" and y[1] == "is_empty" and [set(a) for a in y[3]] == [{("arg", 1, "errs")}] for y in x[2]) and x[2]:
            ok = True
        if x[0] == "bin" and x[1] in ("Ne", "Gt") and _is_errs_len(x[2]) and _is_zero(x[3]):
            ok = True
        if x[0] == "bin" and x[1] in ("Ne", "Lt") and _is_zero(x[2]) and _is_errs_len(x[3]):
            ok = True
        # "there is a first element": errs.first() / last() / get(0) / iter().next() .is_some()
        if x[0] == "call" and x[1] == "is_some" and len(x[3]) == 1:
            for y in x[3][0]:
                if y[0] == "call" and y[1] in ("first", "last", "first_mut", "last_mut") and [set(a) for a in y[3]] == [{("arg", 1, "errs")}]:
                    ok = True
                if y[0] == "call" and y[1] == "get" and len(y[3]) == 2 and set(y[3][0]) == {("arg", 1, "errs")} and _is_zero(y[3][1]):
                    ok = True
                if y[0] == "call" and y[1] == "next" and len(y[3]) == 1 and all(z[0] == "call" and z[1] in ("iter", "into_iter") and [set(a) for a in z[3]] == [{("arg", 1, "errs")}] for z in y[3][0]) and y[3][0]:
                    ok = True
    ok = ok and len(ret) == 1
    r.ob(ok)
    if not ok:
        r.violations.append(V("ENTRY", b["qname"], "accessor", "has_errors must be !self.errs.is_empty() (or errs.len() != 0); returns %s" % fmt_roots(ret), *loc(b)))
    for q, fld in (("ParseResult::into_output", ("output",)), ("ParseResult::into_errors", ("errs",))):
        b = facts.one(q)
        pv = Prov(b)
        ok = pv.of_local(0) == {("arg", 1) + fld}
        r.ob(ok)
        if not ok:
            r.violations.append(V("ENTRY", q, "accessor", "%s must return self.%s" % (q, fld[0]), *loc(b)))
    # ParseResult fields private, constructor crate-private
    a = facts.adts.get("ParseResult")
    ok = a is not None and all(not f["public"] for v in a["variants"] for f in v["fields"])
    r.ob(ok)
    if not ok:
        r.violations.append(V("ENTRY", "ParseResult", "public fields", "ParseResult's fields must stay private (the three-way consistency is established by its constructor's only callers)"))
    newb = facts.one("ParseResult::new")
    ok = not newb.get("public")
    callers = sorted({b["qname"] for b in facts.bodies for _, _, _, f in calls(b) if f is not None and f["path"].startswith("ParseResult") and f["name"] == "new"})
    # a private helper that only the entry points call (an extracted tail of theirs) is part of the entry points
    allowed = {"Parser::parse_with_state", "Parser::check_with_state"}
    who_calls = {}
    for b_ in facts.bodies:
        src = re.sub(r"(::\{closure#\d+\})+$", "", b_["qname"])
        for _, _, _, f in calls(b_):
            if f is not None and f.get("krate") == "chumsky":
                who_calls.setdefault(f["name"], set()).add(src)
    grew = True
    while grew:
        grew = False
        for c in callers:
            if c in allowed:
                continue
            cb = facts.by_qname.get(c) or []
            if len(cb) == 1 and not cb[0].get("public") and not cb[0].get("impl_trait") and who_calls.get(cb[0]["name"]) \
                    and who_calls[cb[0]["name"]] <= allowed:
                allowed.add(c)
                grew = True
    r.ob(ok and set(callers) <= allowed)
    if not (ok and set(callers) <= allowed):
        r.violations.append(V("ENTRY", "ParseResult::new", "constructor reachable elsewhere",
                              "ParseResult::new must be crate-private and called only by the two entry points; callers: %s public=%s" % (callers, newb.get("public"))))
    # ---- lazy(): the only constructor that discards a suffix
    lz = facts.find("Parser::lazy")
    if len(lz) != 1:
        r.errors.append("anchor Parser::lazy: %d bodies" % len(lz))
    else:
        b = lz[0]
        pv = Prov(b)
        ret = pv.of_local(0)
        ok = any(x[0] == "call" and x[1] == "then_ignore" and any(("arg", 1) in a for a in x[3])
                 and any(any(y[0] == "call" and y[1] == "repeated" and any(any(z[0] == "call" and z[1] == "any" for z in aa) for aa in y[3]) for y in a) for a in x[3])
                 for x in ret)
        if not ok:
            # the same value written as the struct literal that `then_ignore` builds
            def _rep_any(a):
                return any(y[0] == "call" and y[1] == "repeated" and any(any(z[0] == "call" and z[1] == "any" for z in aa) for aa in y[3]) for y in a)
            for x in ret:
                if x[0] == "aggf" and x[1].split("::")[-2:-1] == ["ThenIgnore"] or (x[0] == "aggf" and "ThenIgnore" in x[1]):
                    d = dict(x[2])
                    if set(d.get("parser_a", ())) == {("arg", 1)} and _rep_any(d.get("parser_b", ())):
                        ok = len(ret) == 1
        r.ob(ok)
        r.samples.append({"lazy": fmt_roots(ret)})
        if not ok:
            r.violations.append(V("ENTRY", b["qname"], "lazy()", "lazy() must be self.then_ignore(any().repeated()); found %s" % fmt_roots(ret), *loc(b)))
    r.explanation = ("parse_with_state/check_with_state run the grammar exactly once, as ThenIgnore<&Self, End<I,E>> (type-resolved receiver "
                     "built by then_ignore(self, end())) in Emit resp. Check; on the Err path exactly one push of the taken pending error "
                     "onto this parse's error list, none on the Ok path; output is Some iff Ok; parse/check delegate; into_result is Ok only "
                     "under errs.is_empty() via output.ok_or; has_output/has_errors/into_* read the two private fields; ParseResult::new is "
                     "crate-private with the two entry points as only callers; lazy() = then_ignore(any().repeated())")
    r.nontrivial = r.obligations
    r.require_floor(n_entries, facts, "ENTRY.entries", "entry point bodies")
    return r

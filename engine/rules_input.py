"""Input implementations (C10, C07): sibling agreement of the token readers of one input type, provenance of
the spans they build, Stream's pull-once discipline, grapheme segmentation mode, IoInput's seek guard."""
import re

import mirq
from mirq import calls, assigns, callee_of, callee_path, Prov, fmt_roots
from report import RuleResult, V
import input_table as IT

READER_TRAITS = {"input::Input": "next_maybe", "input::ValueInput": "next", "input::BorrowInput": "next_ref"}


def loc(b, line=None):
    return b["file"], (line if line is not None else b["line"])


def norm_self(t):
    t = re.sub(r"'[A-Za-z_][A-Za-z0-9_]*\s*", "", t or "")
    return t.replace("& ", "&")


def reader_bodies(facts):
    out = {}
    for b in facts.bodies:
        if b["kind"] == "Closure":
            continue
        tr = b.get("impl_trait")
        if tr in READER_TRAITS and b["name"] == READER_TRAITS[tr]:
            out.setdefault(b.get("impl_self_adt") or norm_self(b.get("impl_self")), {})[b["name"]] = b
    return out


def cursor_sig(facts, b):
    """What a reader does to its cursor argument (arg 2): set of effect strings; ('delegate', name) for pure forwards."""
    cname = mirq.local_name(b, 2)
    cs = [(t, f) for _, _, t, f in calls(b) if f is not None]
    non_trivial = [(t, f) for t, f in cs if f["name"] not in ("deref", "deref_mut", "borrow", "as_ref", "cloned", "copied", "into", "from")]
    pv = Prov(b)
    # pure delegation to a sibling reader with (this, cursor) passed through
    if len(non_trivial) == 1 and non_trivial[0][1]["name"] in ("next", "next_maybe", "next_ref") \
            and norm_self(non_trivial[0][1].get("self_ty")) == norm_self(b.get("impl_self")):
        t = non_trivial[0][0]
        a = [pv.of_operand(x["op"]) for x in t["args"]]
        if len(a) == 2 and a[0] == {("arg", 1)} and a[1] == {("arg", 2)}:
            return ("delegate", non_trivial[0][1]["name"])
    sig = set()
    for t, f in cs:
        for i, a in enumerate(t["args"]):
            dp = mirq.direct_place(b, a["op"])
            if dp is not None and dp["l"] == 2 and a["ty"].startswith("&mut"):
                nm = re.sub(r"^next(_maybe|_ref)?$", "next*", f["name"])
                sig.add("passes &mut cursor.%s to %s" % (".".join(mirq.field_path(dp)), nm))
    # locals that are `&mut cursor.<field>` (destructuring `let (iter, offset, last_end) = cursor;`, reborrows)
    alias = {}
    changed = True
    while changed:
        changed = False
        for _, bl, s in assigns(b):
            rv = s["rv"]
            if s["place"]["p"] or s["place"]["l"] in alias:
                continue
            src = None
            if rv["k"] in ("ref", "rawptr") and rv.get("mut"):
                src = rv["place"]
            elif rv["k"] == "use":
                src = mirq.operand_place(rv["op"])
                if src is not None and src["l"] == 2:
                    src = None          # a copy of the cursor reference itself is not an alias of a field
            if src is None:
                continue
            if src["l"] == 2 and "*" in mirq.place_fields(src) and mirq.field_path(src):
                alias[s["place"]["l"]] = list(mirq.field_path(src)); changed = True
            elif src["l"] in alias and (rv["k"] == "use" or "*" in mirq.place_fields(src)):
                alias[s["place"]["l"]] = alias[src["l"]] + list(mirq.field_path(src)); changed = True
    for _, bl, s in assigns(b):
        if s["place"]["l"] == 2 and "*" in mirq.place_fields(s["place"]):
            src = pv.of_rvalue(s["rv"], 0)
            sig.add("writes cursor%s <- %s" % ("".join("." + x for x in mirq.field_path(s["place"])), shape(src)))
        elif s["place"]["l"] in alias and "*" in mirq.place_fields(s["place"]):
            src = pv.of_rvalue(s["rv"], 0)
            sig.add("writes cursor%s <- %s" % ("".join("." + x for x in alias[s["place"]["l"]] + list(mirq.field_path(s["place"]))), shape(src)))
    for c in mirq.closure_bodies(facts, b):
        ups = c.get("upvars") or []
        for k, u in enumerate(ups):
            base = u.lstrip("*&")
            if base == cname or base.startswith(cname + "."):
                wrote = []
                cpv = Prov(c)
                # locals holding the captured `&mut cursor.x` (MIR copies the upvar into a temp before writing through it)
                holders = set()
                for _, bl, s in assigns(c):
                    if not s["place"]["p"] and s["rv"]["k"] == "use":
                        src = mirq.operand_place(s["rv"]["op"])
                        if src is not None and src["l"] == 1 and str(k) in mirq.place_fields(src):
                            holders.add(s["place"]["l"])
                for _, bl, s in assigns(c):
                    fl = mirq.place_fields(s["place"])
                    if "*" in fl and ((s["place"]["l"] == 1 and str(k) in fl) or s["place"]["l"] in holders):
                        wrote.append(shape(cpv.of_rvalue(s["rv"], 0)))
                if wrote:
                    sig.add("writes %s <- %s" % (base.replace(cname, "cursor", 1), "|".join(sorted(set(wrote)))))
                else:
                    sig.add("closure captures %s" % base.replace(cname, "cursor", 1))
    return frozenset(sig)


def shape(roots):
    """Callee-name skeleton of a provenance set (arguments dropped)."""
    out = set()

    def walk(x):
        if isinstance(x, (set, frozenset)):
            for y in x:
                walk(y)
        elif isinstance(x, tuple) and x:
            if x[0] == "call":
                out.add(x[1])
                for a in x[3]:
                    walk(a)
            elif x[0] == "bin":
                out.add(x[1].replace("WithOverflow", ""))
                walk(x[2]); walk(x[3])
            elif x[0] == "aggf":
                out.add(x[1].split("::")[-1])
                for _, v in x[2]:
                    walk(v)
            elif x[0] == "field":
                walk(x[1])
            elif x[0] == "const":
                out.add("const")
    walk(roots)
    return "+".join(sorted(out)) or "?"


# how the token reaches the write (Option::map closure, `?`, a match, the mapping closure) is plumbing, not part of what is recorded
_PLUMBING = {"branch", "next", "next_maybe", "next_ref", "call", "tuple", "from_residual", "Continue", "Break", "?"}


def _deplumb(effect):
    if " <- " not in effect:
        return effect
    lhs, rhs = effect.split(" <- ", 1)
    alts = []
    for alt in rhs.split("|"):
        alts.append("+".join(x for x in alt.split("+") if x not in _PLUMBING) or "?")
    return lhs + " <- " + "|".join(sorted(set(alts)))


def rule_reader_sib(facts):
    r = RuleResult("READER-SIB")
    groups = reader_bodies(facts)
    n = 0
    for st, ms in sorted(groups.items()):
        sigs = {nm: cursor_sig(facts, b) for nm, b in ms.items()}
        sigs = {nm: (sg if isinstance(sg, tuple) else frozenset(_deplumb(x) for x in sg)) for nm, sg in sigs.items()}
        concrete = {nm: s for nm, s in sigs.items() if not (isinstance(s, tuple) and s and s[0] == "delegate")}
        n += len(ms)
        vals = set(concrete.values())
        ok = len(vals) <= 1 and len(concrete) >= 1
        r.ob(ok)
        if len(r.samples) < 4 and concrete:
            r.samples.append({"input": st, "readers": sorted(ms), "cursor effects": sorted(list(concrete.values())[0])})
        if not ok:
            b = list(ms.values())[0]
            diff = {nm: sorted(s) for nm, s in concrete.items()}
            r.violations.append(V("READER-SIB", st, "token readers of one input disagree",
                                  "the readers (next / next_maybe / next_ref) of input type %s must move the cursor identically "
                                  "(same sub-fields advanced / recorded); they differ: %s" % (st, diff), *loc(b)))
        # absolute part: the concrete effect equals the reviewed one (a single reader, or all siblings changed alike)
        want = IT.READER_EFFECTS.get(st)
        if concrete and len(vals) == 1:
            got = sorted(_deplumb(x) for x in list(vals)[0])
            ok = want is not None and got == sorted(_deplumb(x) for x in want)
            r.ob(ok)
            if not ok:
                b = list(ms.values())[0]
                r.violations.append(V("READER-SIB", st, "cursor effect of the token reader",
                                      "the token reader(s) of %s must move / record the cursor as reviewed in spec/input_table.py "
                                      "(READER_EFFECTS): expected %s, computed %s" % (st, want, got), *loc(b)))
        # a delegate must point at a concrete sibling
        for nm, s in sigs.items():
            if isinstance(s, tuple) and s and s[0] == "delegate":
                ok = s[1] in ms and s[1] != nm
                r.ob(ok)
                if not ok:
                    r.violations.append(V("READER-SIB", st, "dangling delegation", "%s::%s delegates to %s which is not a sibling reader" % (st, nm, s[1]), *loc(ms[nm])))
    r.explanation = ("for each of the %d input types, the token readers next / next_maybe / next_ref either delegate to one another with "
                     "(cache, cursor) passed through or have identical cursor effects (which cursor sub-fields are advanced through the "
                     "inner reader / assigned / written from the mapping closure)" % len(groups))
    r.nontrivial = len(groups)
    r.require_floor(len(groups), facts, "READER-SIB.inputs", "input types with token readers")
    r.require_floor(n, facts, "READER-SIB.readers", "reader bodies")
    return r


_NORMS = {}


def NORM(facts):
    import nf
    k = id(facts)
    if k not in _NORMS:
        _NORMS.clear()
        _NORMS[k] = nf.Normalizer(facts)
    return _NORMS[k]


def rule_span_prov(facts):
    """Input::span / span_from / slice / slice_from of every input: start from range.start, end from range.end."""
    r = RuleResult("SPAN-PROV")
    n = 0
    seen = {}
    for b in facts.bodies:
        if b["kind"] == "Closure":
            continue
        tr = b.get("impl_trait")
        if tr not in ("input::Input", "input::ExactSizeInput", "input::SliceInput") or b["name"] not in ("span", "span_from", "slice", "slice_from"):
            continue
        st = b.get("impl_self_adt") or norm_self(b.get("impl_self"))
        key = "%s::%s" % (st, b["name"])
        # path-sensitive provenance of the returned value in normal form (engine/nf.py: Option plumbing, closures and
        # delegation erased), one alternative-free term per distinct value
        try:
            vals = set(NORM(facts).value_paths(b))
        except RuntimeError:
            vals = set()
        n += 1
        seen[key] = sorted(vals)
        want = IT.SPAN_PROV.get(key)
        ok = want is not None and (sorted(want) == sorted(vals) or __import__("nf").equal_up_to_renaming(sorted(vals), sorted(want)))
        r.ob(ok)
        if len(r.samples) < 3:
            r.samples.append({key: sorted(vals)})
        if not ok:
            r.violations.append(V("SPAN-PROV", key, "span/slice bounds provenance",
                                  "%s must build its result from (range.start -> start, range.end / last consumed token end / eoi -> end) "
                                  "as recorded in spec/input_table.py; computed %s, expected %s" % (key, sorted(vals), want), *loc(b)))
    for key in IT.SPAN_PROV:
        if key not in seen and IT.feature_of(key) in facts.features | {None}:
            r.errors.append("anchor %s: no such span/slice body in this configuration" % key)
    r.explanation = ("path-sensitive provenance of the value returned by Input::span / span_from / SliceInput::slice / slice_from of every "
                     "input implementation (%d bodies) equals the reviewed table: start <- range.start (or the span start of the token at "
                     "range.start), end <- range.end (or the recorded end of the last consumed token, or eoi); never swapped" % n)
    r.nontrivial = n
    r.info = {"computed": seen}
    r.require_floor(n, facts, "SPAN-PROV.bodies", "span/slice bodies")
    return r


def _split_range(term):
    """'...Range{start: X, end: Y}...' -> (X, Y) with bracket matching; None if the term has no Range aggregate."""
    i = term.find("Range{start: ")
    if i < 0:
        return None
    j = i + len("Range{start: ")
    depth, k = 0, j
    while k < len(term):
        c = term[k]
        if c in "({[":
            depth += 1
        elif c in ")}]":
            if depth == 0:
                break
            depth -= 1
        elif c == "," and depth == 0 and term.startswith(", end: ", k):
            break
        k += 1
    if not term.startswith(", end: ", k):
        return None
    x = term[j:k]
    m = k + len(", end: ")
    depth, k = 0, m
    while k < len(term):
        c = term[k]
        if c in "({[":
            depth += 1
        elif c in ")}]":
            if depth == 0:
                break
            depth -= 1
        k += 1
    return x, term[m:k]


_FETCH = re.compile(r"\b(next_maybe|next_ref|next)\(")


def _nonempty_fact(x, truth):
    """Does `x == truth` (x: provenance root of a switch operand) establish range.start != range.end?"""
    if x[0] == "un" and x[1] == "Not":
        return any(_nonempty_fact(y, not truth) for y in x[2])
    if x[0] == "bin":
        op, a, b_ = x[1], fmt_roots(x[2]), fmt_roots(x[3])
    elif x[0] == "call" and x[1] in ("eq", "ne", "lt", "gt", "le", "ge") and len(x[3]) == 2:
        op, a, b_ = x[1].capitalize(), fmt_roots(x[3][0]), fmt_roots(x[3][1])
    else:
        return False
    sides = (("arg2.start" in a and "arg2.end" not in a and "arg2.end" in b_ and "arg2.start" not in b_)
             or ("arg2.end" in a and "arg2.start" not in a and "arg2.start" in b_ and "arg2.end" not in b_))
    if not sides:
        return False
    # facts that exclude equality: (a == b), (a <= b), (a >= b) false; (a != b), (a < b), (a > b) true
    return (op in ("Eq", "Le", "Ge") and not truth) or (op in ("Ne", "Lt", "Gt") and truth)


def rule_span_empty(facts):
    """Input::span of inputs whose tokens carry their own spans: the span of an EMPTY range must not be assembled from
    two different tokens (start of the token after the position, recorded end of the token before it)."""
    r = RuleResult("SPAN-EMPTY")
    n = two = 0
    for b in facts.bodies:
        if b["kind"] == "Closure" or b.get("impl_trait") != "input::Input" or b["name"] != "span":
            continue
        st = b.get("impl_self_adt") or norm_self(b.get("impl_self"))
        key = "%s::span" % st
        try:
            ps = mirq.paths(b)
        except RuntimeError:
            r.errors.append("path budget exceeded in %s" % key)
            continue
        n += 1
        bad = None
        for path in ps:
            pp_ = mirq.PathProv(b, path)
            pp_.max_depth = 40
            for term in sorted(fmt_roots({x}) for x in pp_.of_local(0)):
                se = _split_range(term)
                if se is None:
                    continue
                start, end = se
                # start read off a token fetched at range.start, end read off what range.end recorded: two different tokens
                if not (_FETCH.search(start) and "arg2.start" in start and "arg2.end" not in start
                        and "arg2.end" in end and "arg2.start" not in end):
                    continue
                two += 1
                guarded = False
                for bb, idx in path:
                    t = b["blocks"][bb]["term"]
                    if t["k"] != "switch" or idx in (None, "loop"):
                        continue
                    op = mirq.operand_place(t["op"])
                    if op is None:
                        continue
                    choice = mirq.switch_choice(b, bb, idx)
                    truth = False if choice == 0 else True
                    for x in pp_.of_place(op):
                        if _nonempty_fact(x, truth):
                            guarded = True
                    if guarded:
                        break
                r.ob(guarded)
                if len(r.samples) < 4:
                    r.samples.append({key: {"start": start, "end": end, "guarded by a start/end comparison": guarded}})
                if not guarded and bad is None:
                    bad = (start, end)
        if bad is not None:
            r.violations.append(V("SPAN-EMPTY", key, "empty range spans two tokens",
                                  "%s builds start <- %s (the token AFTER range.start) and end <- %s (recorded from the token BEFORE "
                                  "range.end, or its fallback) on a path that never compares range.start with range.end: for an empty "
                                  "range (a match that consumed nothing) these are the following and the preceding token, so the span is "
                                  "inverted whenever token spans have gaps, and covers start..fallback when nothing was consumed yet"
                                  % (key, bad[0], bad[1]), *loc(b)))
    r.explanation = ("every Input::span body (%d): a path whose result takes its start from a token fetched at range.start and its end from "
                     "the record kept in range.end (%d such path values) lies under a path fact that excludes range.start == range.end (`start == end` false, "
                     "`!=`/`<`/`>` true), so an empty range cannot be described by two different tokens" % (n, two))
    r.nontrivial = two
    r.info = {"span bodies": n, "two-token path values": two}
    r.require_floor(n, facts, "SPAN-EMPTY.bodies", "Input::span bodies")
    r.require_floor(two, facts, "SPAN-EMPTY.two_token", "two-token span path values")
    return r


def rule_span_impl(facts):
    """src/span.rs: Span accessors, constructors, defaults and conversions keep start and end apart."""
    r = RuleResult("SPAN-IMPL")
    seen = {}
    for b in facts.bodies:
        if b["kind"] == "Closure":
            continue
        q = b["qname"]
        is_span_impl = b.get("impl_trait") == "span::Span" or q.startswith("span::Span::")
        if q not in IT.SPAN_IMPL and not is_span_impl:
            continue
        got = " | ".join(NORM(facts).value_flow(b))
        want = IT.SPAN_IMPL.get(q)
        if want is None:
            r.info.setdefault("new_unjudged", []).append(q)        # a new Span impl / provided method: no reviewed reference
            continue
        seen[q] = got
        ok = want == got
        r.ob(ok)
        if len(r.samples) < 4:
            r.samples.append({q: got})
        if not ok:
            r.violations.append(V("SPAN-IMPL", q, "span accessor / constructor provenance",
                                  "%s must return `%s` (start and end each taken from their own bound, in order); computed `%s`"
                                  % (q, want, got), *loc(b)))
    for q in IT.SPAN_IMPL:
        if q not in seen:
            r.errors.append("anchor %s: no such body in src/span.rs" % q)
    r.explanation = ("the %d Span trait methods (three implementations + the defaults to_end / union) and span conversions return the "
                     "reviewed provenance term: start() <- the start bound, end() <- the end bound, new keeps the range in order, "
                     "to_end = end..end, union = min(starts)..max(ends)" % len(seen))
    r.nontrivial = len(seen)
    r.info = {"computed": seen}
    r.require_floor(len(seen), facts, "SPAN-IMPL.bodies", "span.rs bodies")
    return r


def _int_const(x):
    m = re.match(r"^(?:const )?(\d+)_(?:usize|u\d+|i\d+|isize)$", x.strip())
    return int(m.group(1)) if m else None


def lower_bound(roots, guard_le=None, depth=0):
    """Sound lower bound (in the naturals) of an unsigned provenance term set; 0 = nothing known.
    guard_le=(a, b): the fact a <= b holds (formatted roots), so `b - a` is >= 0 and does not wrap."""
    if not roots or depth > 40:
        return 0
    return min(_lb1(x, guard_le, depth) for x in roots)


def _lb1(x, g, d):
    if x[0] == "const":
        c = _int_const(x[1])
        return c if c is not None else 0
    if x[0] == "field" and isinstance(x[1], tuple) and x[1][0] == "bin" and x[2] == "0":
        return _lb1(x[1], g, d + 1)
    if x[0] == "bin":
        op = x[1].replace("WithOverflow", "").replace("Unchecked", "")
        a, bb = x[2], x[3]
        if op == "Add":
            return lower_bound(a, g, d + 1) + lower_bound(bb, g, d + 1)
        if op == "Mul":
            return lower_bound(a, g, d + 1) * lower_bound(bb, g, d + 1)
        if op == "Div":
            cs = [_int_const(y[1]) if y[0] == "const" else None for y in bb]
            if cs and all(c for c in cs):
                return lower_bound(a, g, d + 1) // max(cs)
            return 0
        if op == "Sub":
            cs = [_int_const(y[1]) if y[0] == "const" else None for y in bb]
            if cs and all(c is not None for c in cs):
                return max(0, lower_bound(a, g, d + 1) - max(cs))
            return 0      # incl. the guarded `cursor - len` (>= 0)
        return 0
    if x[0] == "call" and x[1] == "max":
        return max(lower_bound(y, g, d + 1) for y in x[3])
    if x[0] == "call" and x[1] == "min":
        return min(lower_bound(y, g, d + 1) for y in x[3])
    if x[0] == "call" and x[1] in ("saturating_add", "wrapping_add") and all(lower_bound(y, g, d + 1) < 2 ** 32 for y in x[3]):
        return sum(lower_bound(y, g, d + 1) for y in x[3])
    return 0


def rule_stream(facts):
    r = RuleResult("STREAM")
    from rules_hooks import has_field
    nb = facts.find("stream::Stream[input::ValueInput]::next")
    if len(nb) != 1:
        r.errors.append("anchor Stream::next: %d bodies" % len(nb))
        return r
    b = nb[0]
    pv = Prov(b)
    # (1) who touches Stream.iter mutably / moves it
    users = {}
    for x in facts.bodies:
        for _, bl, s in assigns(x):
            rv = s["rv"]
            pl = rv.get("place") if rv["k"] in ("ref", "rawptr") else (mirq.operand_place(rv["op"]) if rv["k"] == "use" else None)
            if pl is not None and has_field(pl, "stream::Stream", "iter"):
                kind = "mutborrow" if (rv["k"] in ("ref", "rawptr") and rv.get("mut")) else ("move" if rv["k"] == "use" and "m" in rv["op"] else "read")
                users.setdefault(x["qname"], set()).add(kind)
    for q, ks in sorted(users.items()):
        allowed = IT.STREAM_ITER_USERS.get(q, set())
        ok = ks <= allowed
        r.ob(ok)
        if not ok:
            r.violations.append(V("STREAM", q, "iterator touched outside the refill", "%s uses Stream.iter as %s (allowed %s): items could be pulled twice or out of order" % (q, sorted(ks), sorted(allowed)), *loc(facts.by_qname[q][0])))
    # (2) the cache only grows: the only mutating calls on `tokens` append
    APPEND = {"extend", "push", "extend_from_slice", "append", "reserve"}
    muts = []
    for x in facts.bodies:
        for _, bl, t, f in calls(x):
            if f is None or not t["args"]:
                continue
            dp = mirq.direct_place(x, t["args"][0]["op"])
            if dp is not None and has_field(dp, "stream::Stream", "tokens") and t["args"][0]["ty"].startswith("&mut"):
                muts.append((x["qname"], f["name"]))
    ok = all(q == "stream::Stream[input::ValueInput]::next" and n_ in APPEND for q, n_ in muts) and len(muts) >= 1
    r.ob(ok)
    if not ok:
        r.violations.append(V("STREAM", b["qname"], "cache mutated other than by appending", "Stream.tokens is mutated by %s; only appending calls in the refill may touch it" % muts, *loc(b)))
    # (3) every pull from the iterator sits on the `tokens.len() <= cursor` side of the guard; the token served is tokens.get(cursor)
    pulls = set()
    for i, bl, t, f in calls(b):
        for a in t["args"]:
            dp = mirq.direct_place(b, a["op"])
            if dp is not None and has_field(dp, "stream::Stream", "iter") and a["ty"].startswith("&mut"):
                pulls.add(i)
    # `(&mut this.iter).take(n)` : the &mut is created by a statement, the adaptor call receives it
    for i, bl, s_ in assigns(b):
        rv = s_["rv"]
        if rv["k"] == "ref" and rv.get("mut") and has_field(rv["place"], "stream::Stream", "iter"):
            pulls.add(i)
    ok = len(pulls) >= 1
    why = "%d pull sites" % len(pulls)
    if ok:
        guard_ok = False
        for i, bl in mirq.blocks(b):
            t = bl["term"]
            if t["k"] != "switch":
                continue
            op = mirq.operand_place(t["op"])
            if op is None:
                continue
            for x in pv.of_local(op["l"]):
                if x[0] == "bin" and x[1] in ("Le", "Ge", "Lt", "Gt"):
                    form = (x[1], fmt_roots(x[2]), fmt_roots(x[3]))
                    lenr, curr = "len(arg1.tokens)", "arg2"
                    true_t, false_t = t["otherwise"], t["targets"][0][1]
                    if form in (("Le", lenr, curr), ("Ge", curr, lenr)):
                        pull_side = true_t
                    elif form in (("Gt", lenr, curr), ("Lt", curr, lenr)):
                        pull_side = false_t
                    else:
                        continue
                    other = false_t if pull_side == true_t else true_t
                    # no pull is reachable without passing through the pull side of this guard
                    no_guarded = mirq.reachable(b, 0, avoid={pull_side})
                    if not (pulls & no_guarded) and (pulls & mirq.reachable(b, pull_side)):
                        guard_ok = True
        gets = [(t, f) for _, _, t, f in calls(b) if f is not None and f["name"] in ("get", "index")]
        get_ok = len(gets) == 1 and pv.of_operand(gets[0][0]["args"][0]["op"]) == {("arg", 1, "tokens")} and \
            all(x == ("arg", 2) for x in pv.of_operand(gets[0][0]["args"][1]["op"]))
        ok = guard_ok and get_ok
        why = "pulls from the iterator only under tokens.len() <= cursor=%s, serves tokens.get(cursor)=%s" % (guard_ok, get_ok)
    r.ob(ok)
    r.samples.append({"Stream::next": why})
    # (4) when the refill is written with the `take(n)` adaptor, n is provably >= 1 under the guard: a refill that can
    #     pull nothing while the iterator still has items makes the stream report a premature end of input
    for i, bl, t, f in calls(b):
        if f is None or f["name"] != "take" or len(t["args"]) < 2:
            continue
        if not any(x == ("arg", 1, "iter") for x in pv.of_operand(t["args"][0]["op"])):
            continue
        n_roots = pv.of_operand(t["args"][1]["op"])
        low = lower_bound(n_roots, guard_le=("len(arg1.tokens)", "arg2"))
        ok4 = low >= 1
        r.ob(ok4)
        r.samples.append({"Stream::next refill amount": "take(%s): lower bound %d" % (fmt_roots(n_roots)[:120], low)})
        if not ok4:
            r.violations.append(V("STREAM", b["qname"], "refill amount",
                                  "the refill pulls take(n) items with n = %s, which is not provably >= 1 when tokens.len() <= cursor "
                                  "(lower bound %d): a refill of 0 items leaves tokens.get(cursor) empty although the iterator has more, "
                                  "so the parse sees a premature end of input" % (fmt_roots(n_roots)[:300], low), b["file"], bl["line"]))
    if not ok:
        r.violations.append(V("STREAM", b["qname"], "refill discipline",
                              "Stream::next must pull from the iterator only when tokens.len() <= cursor, append the pulled items to the "
                              "cache and serve tokens.get(cursor): %s" % why, *loc(b)))
    r.explanation = ("Stream: the iterator is advanced at one site only (the refill in ValueInput::next, under the guard tokens.len() <= cursor), "
                     "its items are only appended to the cache, tokens are served by index from the cache; the cursor is a plain index so "
                     "rewinding never touches the iterator: each item is pulled at most once and in order")
    r.nontrivial = 3
    return r


def rule_input_misc(facts):
    r = RuleResult("INPUT-MISC")
    # extended grapheme clusters everywhere
    gs = []
    for b in facts.bodies:
        for _, bl, t, f in calls(b):
            if f is not None and f["name"] == "graphemes" and "unicode_segmentation" in callee_path(f):
                o = t["args"][1]["op"] if len(t["args"]) > 1 else {}
                val = o.get("k", {}).get("val", "?") if "k" in o else "non-const"
                gs.append((b["qname"], val))
                ok = val.replace("const ", "").strip() == "true"
                r.ob(ok)
                if not ok:
                    r.violations.append(V("INPUT-MISC", b["qname"], "grapheme segmentation mode",
                                          "graphemes(%s): the Graphemes input must yield EXTENDED grapheme clusters (graphemes(true))" % val, b["file"], bl["line"]))
    if "std" in facts.features or True:
        r.require_floor(len(gs), facts, "INPUT-MISC.graphemes_calls", "calls to UnicodeSegmentation::graphemes")
    # &str / Graphemes: the cursor advances by the length of the item just decoded at that cursor
    for q, lenfn in (("&'src str[input::Input]::next_maybe", "len_utf8"), ("&'src text::unicode::Graphemes[input::Input]::next_maybe", "len")):
        bs = facts.find(q)
        if len(bs) != 1:
            r.errors.append("anchor %s: %d bodies" % (q, len(bs)))
            continue
        b = bs[0]
        pv = Prov(b)
        ws = [s for _, _, s in assigns(b) if s["place"]["l"] == 2 and "*" in mirq.place_fields(s["place"])]
        ok = len(ws) >= 1
        why = ""
        for s in ws:
            src = pv.of_rvalue(s["rv"], 0)
            # *cursor + lenfn(item) where item <- next(<iter>(get_unchecked(this, cursor..)))
            good = False
            for x in src:
                y = x
                if y[0] == "field":
                    y = y[1]
                if y[0] == "bin" and y[1].startswith("Add"):
                    sides = [y[2], y[3]]
                    has_cur = any(set(sd) == {("arg", 2)} for sd in sides)
                    has_len = any(mirq.roots_mention(sd, lambda z: isinstance(z, tuple) and z[0] == "call" and z[1] == lenfn
                                                     and mirq.roots_mention(z[3], lambda w: isinstance(w, tuple) and w[0] == "call" and w[1] == "get_unchecked"))
                                  for sd in sides)
                    good = has_cur and has_len
            ok = ok and good
            why = fmt_roots(src)[:200]
        r.ob(ok)
        r.samples.append({q.split("[")[0]: why})
        if not ok:
            r.violations.append(V("INPUT-MISC", q, "cursor advance",
                                  "the cursor must advance by %s() of the item decoded at that cursor (keeps it on a boundary); found %s" % (lenfn, why), *loc(b)))
    # IoInput: re-seek exactly when the cursor differs from the reader position
    bs = facts.find("input::IoInput[input::ValueInput]::next")
    if len(bs) == 1:
        b = bs[0]
        pv = Prov(b)
        seeks = [i for i, bl, t, f in calls(b) if f is not None and "seek" in f["name"]]
        ok = len(seeks) == 1
        why = "%d seek calls" % len(seeks)
        if ok:
            found = False
            for i, bl in mirq.blocks(b):
                t = bl["term"]
                if t["k"] != "switch":
                    continue
                op = mirq.operand_place(t["op"])
                if op is None:
                    continue
                for x in pv.of_local(op["l"]):
                    if x[0] != "bin":
                        continue
                    sides = {fmt_roots(x[2]), fmt_roots(x[3])}
                    # the cursor against the one `usize` field of the cache that remembers where the reader is (whatever it is called)
                    if x[0] == "bin" and "arg2" in sides and len(sides) == 2 and all(s_ == "arg2" or re.match(r"^arg1\.\w+$", s_) for s_ in sides):
                        found = True
                        true_t, false_t = t["otherwise"], t["targets"][0][1]
                        if x[1] == "Ne":
                            ok = seeks[0] in mirq.reachable(b, true_t, avoid={false_t}) and seeks[0] not in mirq.reachable(b, false_t, avoid={true_t})
                        elif x[1] == "Eq":
                            ok = seeks[0] in mirq.reachable(b, false_t, avoid={true_t}) and seeks[0] not in mirq.reachable(b, true_t, avoid={false_t})
                        else:
                            ok = False
                        why = "seek guarded by %s(cursor, last_cursor)" % x[1]
            if not found:
                # unconditional seek is fine too
                ok = not (mirq.reachable(b, 0, avoid={seeks[0]}) & set(mirq.return_blocks(b)))
                why = "no cursor/last_cursor comparison; seek on every path=%s" % ok
        r.ob(ok)
        r.samples.append({"IoInput::next": why})
        if not ok:
            r.violations.append(V("INPUT-MISC", b["qname"], "seek-on-rewind guard",
                                  "IoInput::next must re-seek whenever the requested cursor differs from the reader position (in either "
                                  "direction): %s" % why, *loc(b)))
        # the byte is fetched by a primitive that cannot mistake a transient condition for end of input: `read_exact` (retries
        # ErrorKind::Interrupted, fails on a short read), or a bare `read` in a body that itself examines ErrorKind::Interrupted
        rd = [f["name"] for _, _, t, f in calls(b) if f is not None and f["name"] in ("read", "read_exact", "read_buf", "read_to_end", "bytes", "read_vectored")]
        mentions_interrupted = any("Interrupted" in str(x) for bl in b["blocks"] for x in ([s_.get("rv") for s_ in bl["stmts"] if s_["k"] == "assign"] + [bl["term"]]))
        ok = bool(rd) and (all(x == "read_exact" for x in rd) or mentions_interrupted)
        r.ob(ok)
        r.samples.append({"IoInput::next read primitive": rd})
        if not ok:
            r.violations.append(V("INPUT-MISC", b["qname"], "read primitive",
                                  "IoInput::next fetches the next byte with %s: a bare read() returns Err(Interrupted) / Ok(0) in situations that are "
                                  "not the end of the input, and mapping those to None makes the parse see a premature end of input (an implicit "
                                  "end() then accepts a prefix); use read_exact or handle ErrorKind::Interrupted" % (rd or "no std::io::Read call"), *loc(b)))
    elif "std" in facts.features:
        r.errors.append("anchor IoInput::next: %d bodies" % len(bs))
    r.explanation = ("Graphemes input segments with graphemes(true) (extended clusters) at all %d call sites; the &str / grapheme cursor advances "
                     "by len_utf8()/len() of the item decoded at that cursor; IoInput re-seeks exactly when cursor != last_cursor and reads "
                     "through read_exact" % len(gs))
    r.nontrivial = len(gs) + 3
    return r

"""Known findings, VIOLATION lines, evidence files."""
import json
import os
import re
import time

VERIF = os.path.dirname(os.path.dirname(os.path.abspath(__file__)))
KNOWN = os.path.join(VERIF, "known_findings.txt")


class RuleResult:
    def __init__(self, rule, explanation=""):
        self.rule = rule
        self.explanation = explanation
        self.obligations = 0
        self.discharged = 0
        self.violations = []      # interp.Violation-like: .key .detail .file .line .trace
        self.samples = []
        self.info = {}
        self.floor = None         # (measured, required)
        self.nontrivial = 0
        self.errors = []          # checker breakages (fail closed)
        self.floors = []

    def ob(self, ok=True, n=1):
        self.obligations += n
        if ok:
            self.discharged += n

    def require_floor(self, measured, facts, key, what):
        """Fail closed when a rule matched fewer instances than counted on the pinned tree."""
        import floors
        required = floors.get(facts, key)
        floors.MEASURED[(facts.config, key)] = measured
        self.floor = (measured, required, what)
        self.floors.append({"key": key, "measured": measured, "required": required, "what": what})
        if measured < required:
            self.errors.append("floor: %s: measured %d < required %d (rule matched too few instances: "
                               "anchor moved or analysis lost coverage)" % (what, measured, required))


class V:
    """A rule violation."""
    def __init__(self, rule, fn, instance, detail, file=None, line=None, trace=()):
        self.rule, self.fn, self.instance, self.detail = rule, fn, instance, detail
        self.file, self.line, self.trace = file, line, trace

    @property
    def key(self):
        return "%s|%s|%s" % (self.rule, self.fn, self.instance)


def load_known():
    """known_findings.txt:  `known: property=C11 key=<rule|fn|instance> :: text`
                            `fixed: property=C05 <commit> <what failed>`   (suppresses nothing)"""
    known = {}
    fixed = []
    if not os.path.exists(KNOWN):
        return known, fixed
    for ln in open(KNOWN):
        ln = ln.strip()
        if not ln or ln.startswith("#"):
            continue
        m = re.match(r"known:\s+property=(\S+)\s+key=(.*?)\s+::\s+(.*)$", ln)
        if m:
            known.setdefault(m.group(1), {})[m.group(2)] = m.group(3)
            continue
        if ln.startswith("fixed:"):
            fixed.append(ln)
    return known, fixed


def write_replay(prop, v):
    d = os.path.join(os.environ.get("VERIF_EVIDENCE_DIR") or os.path.join(VERIF, "evidence"), "replay")
    os.makedirs(d, exist_ok=True)
    name = re.sub(r"[^A-Za-z0-9_.-]+", "_", "%s-%s" % (prop, v.key))[:150] + ".json"
    p = os.path.join(d, name)
    doc = {
        "property": prop, "rule": v.rule, "function": v.fn, "instance": v.instance, "key": v.key,
        "location": "%s:%s" % (v.file, v.line), "detail": v.detail,
        "path": [list(map(str, e)) for e in (v.trace or ())][-60:],
        "how_to_replay": "./check %s --replay %s   (re-runs the rule and prints this finding if it is still present)" % (prop, p),
    }
    with open(p, "w") as fh:
        json.dump(doc, fh, indent=1)
    return p


def finish(prop, tier, results, t0, level_note_assumptions, seed=0):
    """Print findings, write evidence, return exit code."""
    known, _fixed = load_known()
    kn = known.get(prop, {})
    viol = []
    seen = set()
    known_hit = []
    errors = []
    for r in results:
        errors.extend("%s: %s" % (r.rule, e) for e in r.errors)
        for v in r.violations:
            if v.key in seen:
                continue
            seen.add(v.key)
            if v.key in kn:
                known_hit.append(v)
            else:
                viol.append(v)
    for v in known_hit:
        print("KNOWN-FINDING: property=%s %s -- %s [%s:%s]" % (prop, v.key, kn[v.key], v.file, v.line))
    for v in viol:
        p = write_replay(prop, v)
        print("VIOLATION property=%s replay=%s" % (prop, p))
        print("  rule=%s function=%s instance=%s at %s:%s\n  %s" % (v.rule, v.fn, v.instance, v.file, v.line, v.detail))
    for e in errors:
        print("CHECKER-ERROR property=%s %s" % (prop, e))
    obligations = sum(r.obligations for r in results)
    discharged = sum(r.discharged for r in results)
    samples = []
    for r in results:
        for s in r.samples[:4]:
            samples.append({"rule": r.rule, "case": s})
    ev = {
        "property_id": prop,
        "tier": tier,
        "seed": seed,
        "level": "other",
        "coverage": {
            "explanation": " || ".join("%s: %s" % (r.rule, r.explanation) for r in results),
            "obligations": obligations,
            "discharged": discharged,
            "evaluations": max(obligations, 1),
            "distinct_nontrivial": sum(r.nontrivial for r in results),
            "rule": "one evaluation = one rule instance (a call site, CFG exit path summary, type or table row) "
                    "decided on /repo's current MIR/type facts; non-trivial = the instance has a failure "
                    "continuation, touches errors.alt/secondary, moves the cursor or is a type-level obligation "
                    "with at least one field/impl to inspect; distinct by (rule, function, instance key)",
            "samples": samples[:24],
            "rules": [{"rule": r.rule, "obligations": r.obligations, "discharged": r.discharged,
                       "floors": r.floors, "info": r.info} for r in results],
            "known_findings_hit": [v.key for v in known_hit],
            "exhaustive": False,
        },
        "assumptions": level_note_assumptions,
        "wall_s": round(time.time() - t0, 2),
        "violations": len(viol),
    }
    evdir = os.environ.get("VERIF_EVIDENCE_DIR") or os.path.join(VERIF, "evidence")
    os.makedirs(evdir, exist_ok=True)
    with open(os.path.join(evdir, "%s.json" % prop), "w") as fh:
        json.dump(ev, fh, indent=1, default=str)
    print("%s [%s]: %d obligations, %d discharged, %d violation(s), %d known finding(s), %d checker error(s), %.1fs"
          % (prop, tier, obligations, discharged, len(viol), len(known_hit), len(errors), time.time() - t0))
    if viol:
        return 1          # a violation was found (checker errors, if any, are printed as well)
    return 2 if errors else 0

"""Discipline rules decided by the typestate interpreter (POISON, KEEP, LIFO, PFAIL, ALT-LINEAR, ALT-POS)."""
import facts as factsmod
from protocol import ProtocolRun, fmt_exit, fmt_pos
from report import RuleResult, V

_run_cache = {}


def get_run(config="all"):
    if config not in _run_cache:
        f = factsmod.load(config)
        _run_cache[config] = ProtocolRun(f).run()
    return _run_cache[config]


def _distinct(log, idx_body=0, idx_line=-2):
    return {(e[idx_body]["uname"], e[idx_line]) for e in log}


def _is_forwarder(u):
    last = u.split("::")[-1].split("<")[0]
    return last in ("go_emit", "go_check", "go_emit_cfg", "go_check_cfg") or last.endswith("_emit") or last.endswith("_check")


def discipline(run, rules, fn_pred=None, title=None):
    """Collect violations of the given discipline rules (optionally restricted to some functions)."""
    res = []
    I = run.I
    for rule in rules:
        r = RuleResult(rule)
        for u, m in run.errors:
            if fn_pred is None or fn_pred(u):
                r.errors.append("analysis failed closed for %s: %s" % (u, m))
        for v in I.violations:
            if v.rule != rule:
                continue
            if fn_pred is not None and not fn_pred(v.fn):
                continue
            r.violations.append(V(v.rule, v.fn, v.instance, v.detail, v.file, v.line, v.trace))
        bodies = [(b, c) for b, c in run.bodies if (fn_pred is None or fn_pred(b["uname"]))]
        summ = {u: e for u, e in run.summaries.items() if (fn_pred is None or fn_pred(u))}
        names = set(summ)
        if rule == "POISON":
            sites = {x for x in _distinct(I.child_calls) if x[0] in names}
            exits = sum(len(e) for e in summ.values())
            r.explanation = ("after a class-F1 callee returns Err the next input event on every path is a rewind to a "
                             "checkpoint saved on clean input, or Err is returned; %d child-call sites (each with an "
                             "Err continuation) and %d exit summaries examined" % (len(sites), exits))
            bad = {v.key for v in r.violations}
            r.obligations = len(sites) + exits
            r.discharged = r.obligations - len(bad)
            r.nontrivial = len({s for s in sites if not _is_forwarder(s[0])})
            r.info = {"child_call_sites": len(sites), "exit_summaries": exits}
            r.samples = [{"site": "%s line %s" % s, "rule": "Err continuation must rewind or return Err"} for s in sorted(sites, key=str)[:3]]
        elif rule in ("KEEP", "LIFO"):
            rew = {x for x in _distinct(I.rewinds) if x[0] in names}
            r.explanation = ("%s over every rewind event: %d rewind call sites reached on all explored paths; "
                             % (rule, len(rew)) +
                             ("a rewind must not truncate the emissions of a sub-parser whose Ok payload flows into the returned Ok value"
                              if rule == "KEEP" else
                              "a rewind target's recorded emission set must be a prefix of the current one"))
            r.obligations = len(rew)
            r.discharged = len(rew) - len({(v.fn) for v in r.violations})
            r.nontrivial = len(rew)
            r.info = {"rewind_sites": len(rew)}
            r.samples = [{"rewind": "%s line %s" % s} for s in sorted(rew, key=str)[:3]]
        elif rule == "PFAIL":
            errexits = [(u, e) for u, es in summ.items() for e in es if e.cls == "Err"]
            unw = {x for x in {(b["uname"], l) for b, l, _ in I.unwrap_sites} if x[0] in names}
            r.explanation = ("every Err(()) exit of a class-F1 body has errors.alt definitely Some (%d Err exit summaries), "
                             "every unwrap of a taken alt is reached only with Some (%d unwrap sites), add_alt/add_alt_err "
                             "record on all paths" % (len(errexits), len(unw)))
            r.obligations = len(errexits) + len(unw)
            r.discharged = r.obligations - len(r.violations)
            r.nontrivial = len({u for u, _ in errexits if not _is_forwarder(u)}) + len(unw)
            r.info = {"err_exits": len(errexits), "unwrap_sites": len(unw)}
            r.samples = [{"fn": u, "exit": fmt_exit(e)} for u, e in errexits[:3]]
        elif rule == "ALT-LINEAR":
            touching = set()
            for u, es in summ.items():
                for e in es:
                    if any(ev[0] in ("take_alt", "slot=") for ev in e.trace):
                        touching.add(u)
            exits = sum(len(es) for u, es in summ.items())
            r.explanation = ("the errors.alt value present at entry is a linear token: it must be back in the slot at every "
                             "exit (or emitted by a recovery strategy); %d bodies shelter/replace the slot, %d exit summaries checked"
                             % (len(touching), exits))
            r.obligations = exits
            r.discharged = exits - len(r.violations)
            r.nontrivial = len(touching)
            r.info = {"bodies_touching_slot": sorted(touching)}
            r.samples = [{"fn": u} for u in sorted(touching)[:4]]
        elif rule == "ALT-POS":
            sites = {(e[0]["uname"], e[5]) for e in I.alt_adds if e[1] == "add_alt_err" and e[0]["uname"] in names}
            r.explanation = ("an error taken out of errors.alt (or a stored Located) is re-added with its own position; "
                             "%d add_alt_err call sites examined" % len(sites))
            r.obligations = len(sites)
            r.discharged = len(sites) - len(r.violations)
            r.nontrivial = len(sites)
            r.info = {"add_alt_err_sites": len(sites), "exceptions_used": sorted(map(str, I.models.exceptions_used))}
            r.samples = [{"site": "%s line %s" % s} for s in sorted(sites, key=str)[:3]]
        res.append(r)
    return res

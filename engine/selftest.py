"""Thorough-tier self-test of a property's rules, both directions (DESIGN §8):

  fire    every confirmed seeded change of that property (seeded/<id>/patch.diff), applied to a scratch copy of
          /repo's current tree, must make the property's quick check report a VIOLATION;
  silent  every behaviour-preserving refactor (selftest/refactors/*.diff), applied likewise, must leave it silent.

A seed that no longer fires / a refactor that alarms is a CHECKER-ERROR (the checker lost power or precision),
not a violation of the property.  Patches that no longer apply to the current tree are skipped and listed.
Scratch copies live in a mktemp dir and are removed, with their build output, as soon as each is done.
"""
import json
import os
import re
import shutil
import subprocess
import tempfile

import facts as factsmod
from report import RuleResult

VERIF = os.path.dirname(os.path.dirname(os.path.abspath(__file__)))
SEEDED = os.path.join(VERIF, "seeded")
REFACTORS = os.path.join(VERIF, "selftest", "refactors")

# seeds that are out of static reach by design (value-level; DESIGN §10) -- not demanded to fire.  Empty since the refill-amount
# clause of STREAM and the GRAMMAR rule were added (both former misses, C03-2 and C08-3, are reported now).
EXPECTED_MISS = {
    "C12-7": "the memo key `address.wrapping_add(offset)` is a memoisation defect: reported by MEMO-KEY under C11; C12's statement does not "
             "mention memoisation and both the recursive grammar and its unrolling contain the memoised parsers (DESIGN §10, round 3)",
}

# which refactor patches touch which properties' rules
REFACTOR_PROPS = {
    "R01": ["C01", "C05"], "R02": ["C02"], "R03": ["C01"], "R04": ["C05", "C18"], "R05": ["C03"],
    "R06": ["C12"], "R07": ["C14"], "R08": ["C09"], "R09": ["C06"], "R10": ["C02"],
    "R11": ["C01", "C06"], "R12": ["C05", "C18"], "R13": ["C03"], "R14": ["C03", "C10"], "R15": ["C14", "C10"],
    "R16": ["C16", "C05"], "R17": ["C09"],
}


def _scratch_copy(repo):
    tmp = tempfile.mkdtemp(prefix="verif-selftest-")
    dst = os.path.join(tmp, "repo")
    os.makedirs(dst)
    for name in os.listdir(repo):
        if name in ("target", ".git"):
            continue
        src = os.path.join(repo, name)
        if os.path.isdir(src):
            shutil.copytree(src, os.path.join(dst, name))
        else:
            shutil.copy2(src, os.path.join(dst, name))
    return tmp, dst


def _run_patch(pid, patch):
    """Returns ('skip', why) | ('ran', violations:list[str], checker_errors:list[str])."""
    repo = factsmod.REPO
    tmp, dst = _scratch_copy(repo)
    try:
        # strip leading comment lines of refactor patches
        text = open(patch).read()
        text = "\n".join(l for l in text.split("\n") if not l.startswith("# "))
        pf = os.path.join(tmp, "p.diff")
        open(pf, "w").write(text)
        r = subprocess.run(["git", "apply", "--whitespace=nowarn", pf], cwd=dst, capture_output=True, text=True)
        if r.returncode != 0:
            return ("skip", "patch does not apply to the current tree")
        env = dict(os.environ, VERIF_REPO=dst, VERIF_EVIDENCE_DIR=os.path.join(tmp, "evidence"), VERIF_TIER="quick")
        p = subprocess.run([os.path.join(VERIF, "check"), pid, "--tier", "quick"], cwd=VERIF, env=env, capture_output=True, text=True)
        viol = re.findall(r"^\s+rule=(\S+) function=(.*?) instance=", p.stdout, re.M)
        errs = [l for l in p.stdout.split("\n") if l.startswith("CHECKER-ERROR")]
        return ("ran", ["%s|%s" % v for v in viol], errs)
    finally:
        shutil.rmtree(tmp, ignore_errors=True)


def _map(jobs):
    import concurrent.futures as cf
    with cf.ThreadPoolExecutor(int(os.environ.get("VERIF_SELFTEST_WORKERS", "8"))) as ex:
        return list(ex.map(lambda j: _run_patch(*j), jobs))


def rule_selftest(pid):
    r = RuleResult("SELFTEST")
    fired, silent, skipped = [], [], []
    seed_jobs, ref_jobs = [], []
    if os.path.isdir(SEEDED):
        for name in sorted(os.listdir(SEEDED)):
            d = os.path.join(SEEDED, name)
            if os.path.isdir(d) and name.startswith(pid + "-") and name not in EXPECTED_MISS:
                seed_jobs.append((name, (pid, os.path.join(d, "patch.diff"))))
    if os.path.isdir(REFACTORS):
        for fn in sorted(os.listdir(REFACTORS)):
            key = fn.split("-")[0]
            if fn.endswith(".diff") and (pid in REFACTOR_PROPS.get(key, []) or key not in REFACTOR_PROPS):
                ref_jobs.append((fn, (pid, os.path.join(REFACTORS, fn))))
    results = dict(zip([n for n, _ in seed_jobs + ref_jobs], _map([j for _, j in seed_jobs + ref_jobs])))
    # ---- fire
    if os.path.isdir(SEEDED):
        for name in sorted(os.listdir(SEEDED)):
            d = os.path.join(SEEDED, name)
            if not os.path.isdir(d) or not name.startswith(pid + "-"):
                continue
            if name in EXPECTED_MISS:
                skipped.append("%s (declined: %s)" % (name, EXPECTED_MISS[name]))
                continue
            res = results[name]
            if res[0] == "skip":
                skipped.append("%s (%s)" % (name, res[1]))
                continue
            ok = len(res[1]) > 0
            r.ob(ok)
            fired.append({"seed": name, "reported": sorted(set(res[1]))[:4]})
            if not ok:
                r.errors.append("seeded change %s (breaks %s) is no longer reported by ./check %s: the check lost detection power%s"
                                % (name, pid, pid, (" [" + res[2][0][:120] + "]") if res[2] else ""))
    # ---- silent
    if os.path.isdir(REFACTORS):
        for fn in sorted(os.listdir(REFACTORS)):
            key = fn.split("-")[0]
            if fn not in results:
                continue
            res = results[fn]
            if res[0] == "skip":
                skipped.append("%s (%s)" % (fn, res[1]))
                continue
            ok = not res[1] and not res[2]
            r.ob(ok)
            silent.append({"refactor": fn, "alarms": res[1][:3] + res[2][:2]})
            if not ok:
                r.errors.append("behaviour-preserving refactor %s makes ./check %s raise an alarm (%s): the rule is too brittle"
                                % (fn, pid, (res[1] + res[2])[:2]))
    r.explanation = ("both-directions self-test on scratch copies of /repo's current tree: %d seeded changes that break %s must each be "
                     "reported (fire), %d behaviour-preserving refactors must stay silent; skipped: %s"
                     % (len(fired), pid, len(silent), skipped or "none"))
    r.nontrivial = len(fired) + len(silent)
    r.info = {"fired": fired, "silent": silent, "skipped": skipped}
    r.samples = fired[:2] + silent[:1]
    return r

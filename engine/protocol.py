"""Runs the typestate interpreter over every protocol body and applies the exit rules
(PFAIL, ALT-LINEAR at exit, KEEP, POISON at exit).  Produces per-body exit summaries that the
contract tables (spec/contracts.py) are compared against."""
import os
import sys

sys.path.insert(0, os.path.dirname(os.path.abspath(__file__)))
sys.path.insert(0, os.path.join(os.path.dirname(os.path.dirname(os.path.abspath(__file__))), "spec"))

import facts as factsmod
from interp import Interp, AnalysisError, Inp, describe
from models import Models
import exceptions as spec_exceptions
from mirq import calls

# InputRef methods whose bodies are *primitives* of the protocol: their conformance is decided
# by the HOOKS / provenance rules (rules_hooks.py), not by the typestate interpreter.
PRIMITIVE_BODIES = {
    "input::InputRef::with_ctx", "input::InputRef::with_state", "input::InputRef::with_input",
    "input::InputRef::save", "input::InputRef::rewind", "input::InputRef::rewind_input", "input::InputRef::cursor",
    "input::InputRef::next_inner", "input::InputRef::next_maybe_inner", "input::InputRef::next_ref_inner",
    "input::InputRef::next", "input::InputRef::next_maybe", "input::InputRef::next_ref",
    "input::InputRef::skip_while", "input::InputRef::skip_bytes", "input::InputRef::skip",
    "input::InputRef::peek", "input::InputRef::peek_maybe", "input::InputRef::peek_ref",
    "input::InputRef::slice", "input::InputRef::slice_from", "input::InputRef::slice_since",
    "input::InputRef::slice_trailing_inner", "input::InputRef::span_from", "input::InputRef::span_since",
    "input::InputRef::full_slice", "input::InputRef::state", "input::InputRef::ctx",
    "input::InputRef::emit", "input::InputRef::take_alt", "input::MapExtra::new",
}

F1_FN_NAMES = {"go", "go_emit", "go_check", "go_cfg", "go_emit_cfg", "go_check_cfg", "make_iter", "next",
               "next_cfg", "recover", "pratt_go", "invoke", "invoke_cfg"}
OP_FN = {"do_parse_prefix", "do_parse_postfix", "do_parse_infix"}


def is_protocol_body(b):
    if b["kind"] == "Closure":
        return False
    for i in range(1, b["arg_count"] + 1):
        ty = b["locals"][i]["ty"]
        if ty.startswith("&mut input::InputRef<") or ty.startswith("&input::InputRef<"):
            return True
    return False


def body_class(b):
    """Which callee class a body belongs to (decides its exit obligations)."""
    nm = b["name"]
    q = b["qname"]
    if q in ("input::InputRef::add_alt", "input::InputRef::add_alt_err"):
        return "ADD_ALT"
    if q in ("input::InputRef::parse", "input::InputRef::check"):
        return "USER_ENTRY"
    base = nm.replace("_emit", "").replace("_check", "")
    if base in OP_FN or nm.startswith("invoke_pratt_op_"):
        return "OP"
    if nm in F1_FN_NAMES:
        return "F1"
    if q.startswith("extension::current::ExtParser"):
        return "USER"
    return "OTHER"


def closure_class(b):
    """Callee class of a stand-alone closure: by its return type."""
    ret = b["locals"][0]["ty"].replace(" ", "")
    if ret.endswith(",()>"):
        return "F1"
    return "USER"


class ProtocolRun:
    def __init__(self, facts):
        self.facts = facts
        self.I = Interp(facts, None)
        self.I.models = Models(self.I)
        self.I.spec = spec_exceptions
        self.summaries = {}   # uname -> list of Exit
        self.errors = []      # analysis errors (fail closed)
        self.bodies = []

    def entry_for(self, b, cls):
        def entry(st):
            i = st.inps[0]
            if cls == "OP":
                nm = b["name"]
                if "prefix" in nm:
                    i.pos = ("P", "pre_expr")
                else:
                    i.pos = ("P", "pre_op")
            if b["qname"] in ("input::InputRef::add_alt", "input::InputRef::add_alt_err"):
                # the merge primitives *define* what happens to the pending error (ORDER-ARMS rule);
                # the linear-token rule applies to their callers, not inside them.
                i.tok = False
            if b["name"] == "recover":
                # precondition of Strategy::recover (checked at every call site): the failed
                # parser left a primary error.
                i.some = "S"
        return entry

    def closure_bodies(self):
        """Closures that take the parser input but are handed to code we do not inline (operator callbacks,
        `custom` parsers): analysed as bodies of their own.  Named by their ordinal among such closures of the
        same parent (closure numbering proper is not a stable key)."""
        out = []
        per_parent = {}
        for b in self.facts.bodies:
            if b["kind"] != "Closure" or b["key"] in self.I.inlined:
                continue
            if not any(b["locals"][i]["ty"].startswith("&mut input::InputRef<") for i in range(1, b["arg_count"] + 1)):
                continue
            per_parent.setdefault(b["parent_key"], []).append(b)
        for pk, bs in per_parent.items():
            parent = self.facts.by_key.get(pk)
            for k, b in enumerate(sorted(bs, key=lambda x: x["line"])):
                b["uname"] = "%s::{parser-closure#%d}" % (parent["uname"] if parent else pk, k)
                self.facts.by_uname[b["uname"]] = b
                out.append(b)
        return out

    @staticmethod
    def is_private_helper(b):
        """A private free function / inherent method (not of InputRef itself) that is handed the parser input: an extracted piece of
        some combinator body.  It has no PEG meaning of its own; it is interpreted in place inside every protocol body that calls
        it (models.unknown) and judged there."""
        return (b["kind"] != "Closure" and not b.get("impl_trait") and not b.get("in_trait") and not b.get("public")
                and b.get("impl_self_adt") != "input::InputRef")

    def run(self):
        todo = [b for b in self.facts.bodies if is_protocol_body(b)]
        helpers = [b for b in todo if self.is_private_helper(b)]
        self._run([b for b in todo if not self.is_private_helper(b)])
        # a helper nobody inlined (unused, or reached only through an unanalysed path) is analysed as a body of its own
        inl = getattr(self.I, "inlined_helpers", set())
        self.helpers_judged_in_callers = [b["uname"] for b in helpers if b["key"] in inl]
        # a helper that only the entry points call (`take_primary_error(&mut inp)` extracted from parse_with_state) is not part of the
        # combinator protocol at all: the entry points own the input, and ENTRY reads them with such helpers inlined at MIR level
        callers = {}
        for b_ in self.facts.bodies:
            for _, _, _, f in calls(b_):
                if f is not None and f.get("krate") == "chumsky":
                    callers.setdefault(f["name"], []).append(b_)

        def entry_only(h):
            cs = callers.get(h["name"]) or []
            return bool(cs) and all(not is_protocol_body(c) and c["kind"] != "Closure" for c in cs)
        self._run([b for b in helpers if b["key"] not in inl and not entry_only(b)])
        self._run(self.closure_bodies(), closure=True)
        return self

    def _run(self, todo, closure=False):
        for b in todo:
            if not closure and not is_protocol_body(b):
                continue
            if b["qname"] in PRIMITIVE_BODIES:
                continue
            cls = body_class(b) if not closure else closure_class(b)
            self.bodies.append((b, cls))
            try:
                exits = self.I.analyse(b, self.entry_for(b, cls))
            except AnalysisError as e:
                self.errors.append((b["uname"], str(e)))
                continue
            except RecursionError:
                self.errors.append((b["uname"], "recursion limit"))
                continue
            self.summaries[b["uname"]] = exits
            self.exit_rules(b, cls, exits)

    # ------------------------------------------------------------------ exit rules
    def exit_rules(self, b, cls, exits):
        I = self.I
        I.cur_root = b
        for e in exits:
            st = FakeState(e.trace)
            # ---- ALT-LINEAR at exit: the entry token is back in the slot (or legally sunk)
            if cls in ("F1", "OP", "OTHER", "USER"):
                if not e.tok and "tok_sunk_emit" not in e.flags and not self.token_may_be_absent(e):
                    I.violate("ALT-LINEAR", "exit %s without the entry alt" % e.cls,
                              "on a path returning %s the pending primary error present at entry is not in errors.alt"
                              % e.cls, st, b["line"], b)
            # ---- PFAIL: Err exits of F1 bodies leave errors.alt definitely Some
            if cls == "F1" and e.cls == "Err" and e.some != "S":
                I.violate("PFAIL", "Err exit with errors.alt %s" % {"N": "None", "M": "maybe-None"}[e.some],
                          "returns Err(()) on a path where no primary error was recorded", st, b["line"], b)
            if cls == "ADD_ALT" and e.some != "S":
                I.violate("PFAIL", "returns without recording",
                          "%s returns on a path where errors.alt is not set" % b["name"], st, b["line"], b)
            # ---- POISON at exit
            if e.pos[0] == "X":
                if cls in ("F1", "USER", "OTHER") and e.cls.startswith("Ok"):
                    I.violate("POISON", "%s exit after failed %s" % (e.cls, e.pos[1][0]),
                              "returns %s while the input is poisoned by %s" % (e.cls, e.pos[1][0]), st, b["line"], b)
                if cls == "OP":
                    I.violate("POISON", "%s exit after failed %s" % (e.cls, e.pos[1][0]),
                              "operator returns %s without restoring the input after %s failed" % (e.cls, e.pos[1][0]),
                              st, b["line"], b)
            # ---- KEEP: emissions of a sub-parser whose output is returned were truncated
            if e.cls.startswith("Ok"):
                lost = [s for s in e.taint if s in e.truncated]
                if lost:
                    I.violate("KEEP", "output of %s kept, its emissions truncated" % ",".join(sorted(x[0] for x in lost)),
                              "a rewind after %s succeeded drops the non-fatal errors it emitted although its output is returned"
                              % ",".join(sorted(x[0] for x in lost)), st, b["line"], b)

    @staticmethod
    def token_may_be_absent(e):
        # refinement: when the slot was proven None at entry-equivalent (token value None) nothing is lost
        return False


class FakeState:
    def __init__(self, trace):
        self.trace = trace


def fmt_exit(e):
    return "%-9s pos=%-28s errs=%s slot=%s%s trunc=%s taint=%s" % (
        e.cls, fmt_pos(e.pos), sorted(x[0] for x in e.errs), "tok," if e.tok else "", e.some,
        sorted(x[0] for x in e.truncated), sorted(x[0] for x in e.taint))


def fmt_pos(p):
    if p[0] in ("S", "X", "T"):
        return "%s(%s)" % (p[0], p[1][0] if p[1][0] != "token" else p[1][1])
    if p[0] == "P":
        return "P(%s)" % p[1]
    return p[0]


if __name__ == "__main__":
    cfg = "all"
    pat = sys.argv[1] if len(sys.argv) > 1 else ""
    f = factsmod.load(cfg)
    r = ProtocolRun(f).run()
    for u, exits in sorted(r.summaries.items()):
        if pat and pat not in u:
            continue
        if "go_emit" in u or "go_check" in u or "_emit" in u.split("::")[-1] or "_check" in u.split("::")[-1]:
            continue
        print(u)
        for e in exits:
            print("    ", fmt_exit(e))
            if pat and "-t" in sys.argv:
                for ev in e.trace:
                    print("         ", ev)
    print("== errors")
    for u, m in r.errors:
        print("  ", u, m)
    print("== violations")
    seen = set()
    for v in r.I.violations:
        if v.key in seen:
            continue
        seen.add(v.key)
        print("  ", v.key, "@%s:%s" % (v.file, v.line), "--", v.detail)
    print("stats", r.I.stats, "unknown callees", len(r.I.unknown_callees))

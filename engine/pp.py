"""Compact MIR pretty printer for debugging / replay files."""
import sys


def place(p):
    s = "_%d" % p["l"]
    for e in p["p"]:
        if e == "*":
            s = "(*%s)" % s
        elif isinstance(e, dict):
            if "f" in e:
                s += ".%s" % (e["n"] if e.get("n") is not None else e["f"])
            elif "dc" in e:
                s = "(%s as %s)" % (s, e["dc"])
            elif "i" in e:
                s += "[_%d]" % e["i"]
            elif "ci" in e:
                s += "[%s]" % e["ci"]
            else:
                s += "[..]"
        else:
            s += "<%s>" % e
    return s


def operand(o):
    if "c" in o:
        return "copy " + place(o["c"])
    if "m" in o:
        return "move " + place(o["m"])
    k = o["k"]
    if "fn" in k:
        return "fn " + fn(k["fn"])
    return "const " + k.get("val", "?")


def fn(f):
    s = f["path"]
    if f.get("trait") and f.get("self_ty"):
        s = "<%s as %s>::%s" % (f["self_ty"], f["trait"], f["name"])
    if "resolved" in f:
        s += " => " + f["resolved"]["path"]
    return s


def rvalue(r):
    k = r["k"]
    if k == "use":
        return operand(r["op"])
    if k == "ref":
        return ("&mut " if r["mut"] else "&") + place(r["place"])
    if k == "rawptr":
        return "&raw " + place(r["place"])
    if k == "cast":
        return "%s as %s (%s)" % (operand(r["op"]), r["ty"], r["ck"])
    if k == "bin":
        return "%s(%s, %s)" % (r["op"], operand(r["a"]), operand(r["b"]))
    if k == "un":
        return "%s(%s)" % (r["op"], operand(r["a"]))
    if k == "discr":
        return "discriminant(%s)" % place(r["place"])
    if k == "agg":
        ak = r["ak"]
        ops = ", ".join(operand(o) for o in r["ops"])
        if ak == "adt":
            return "%s::%s{%s}" % (r["adt"], r["variant"], ops)
        if ak == "closure":
            return "closure %s [%s]" % (r["closure_key"], ops)
        return "%s(%s)" % (ak, ops)
    if k == "copyderef":
        return "copyderef " + place(r["place"])
    return k


def term(t):
    k = t["k"]
    if k == "goto":
        return "goto bb%d" % t["t"]
    if k == "switch":
        return "switch(%s) %s else bb%d" % (operand(t["op"]), t["targets"], t["otherwise"])
    if k == "call":
        f = t["func"]
        fs = operand(f)
        return "%s = %s(%s) -> bb%s unwind %s" % (place(t["dest"]), fs, ", ".join(operand(a["op"]) for a in t["args"]), t["t"], t["unwind"])
    if k == "drop":
        return "drop(%s) -> bb%d" % (place(t["place"]), t["t"])
    if k == "assert":
        return "assert(%s == %s) -> bb%d" % (operand(t["cond"]), t["expected"], t["t"])
    return k


def body(b, show_cleanup=False, out=sys.stdout):
    print("fn %s   [%s:%d]" % (b["qname"], b["file"], b["line"]), file=out)
    for i, l in enumerate(b["locals"]):
        print("  let _%d: %s%s" % (i, l["ty"], "  // " + l["name"] if l.get("name") else ""), file=out)
    for i, bl in enumerate(b["blocks"]):
        if bl["cleanup"] and not show_cleanup:
            continue
        print("  bb%d: (line %d)" % (i, bl["line"]), file=out)
        for s in bl["stmts"]:
            if s["k"] == "assign":
                print("    %s = %s" % (place(s["place"]), rvalue(s["rv"])), file=out)
            elif s["k"] == "dead":
                pass
            elif s["k"] == "setdiscr":
                print("    discr(%s) = %d" % (place(s["place"]), s["v"]), file=out)
            else:
                print("    %s" % s["k"], file=out)
        print("    -> %s" % term(bl["term"]), file=out)


if __name__ == "__main__":
    sys.path.insert(0, __file__.rsplit("/", 1)[0])
    import facts
    f = facts.load(sys.argv[2] if len(sys.argv) > 2 else "all")
    for b in f.bodies:
        if sys.argv[1] in b["qname"]:
            body(b)
            print()

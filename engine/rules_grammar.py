"""GRAMMAR: composed grammars and builder functions as provenance terms with predicate decision tables.

A builder (a `Parser`/`IterParser` provided method, a free constructor such as `just`, `text::int`,
`recovery::nested_delimiters`, `pratt::infix`) does nothing but assemble combinator values.  Its return value's
provenance term *is* the grammar it denotes: `to_slice(or(ignored(then(try_map(any(), P0), repeated(try_map(any(), P1)))), ..))`.
The closures appearing in the term (`P0`, `P1`: token predicates handed to try_map / filter / custom) are
summarised by a *decision table*: the set of boolean atoms they test (calls and comparisons over the closure's
arguments and captured variables, polarity-normalised) and, for every truth assignment, the outcome (`Ok{..}` /
`Err{..}` / `Some` / `None` / a value term).  The table is invariant under renaming, `&&` operand order, `if`/`match`
/ early return restructuring and negated tests with swapped branches.  Closures with loops or multi-way matches fall
back to an ordered path list.

The computed term of every listed builder is compared with the reviewed reference in spec/grammar_table.py.
"""
import re

import mirq
from mirq import Prov, PathProv, calls, assigns
from report import RuleResult, V

MAX_ATOMS = 8


class GProv(Prov):
    """Prov that keeps closure identity: ('closure', key, ((upvar-name, roots), ..))."""

    def __init__(self, body, facts):
        Prov.__init__(self, body)
        self.facts = facts

    def of_rvalue(self, r, depth, line=None):
        if r["k"] == "agg" and r.get("ak") == "closure":
            cb = self.facts.by_key.get(r["closure_key"])
            names = (cb or {}).get("upvars") or []
            ups = tuple((names[i] if i < len(names) else str(i), frozenset(self.of_operand(o, depth + 1))) for i, o in enumerate(r["ops"]))
            return {("closure", r["closure_key"], ups)}
        if r["k"] == "agg" and r.get("ak") == "array":
            return {("array", tuple(frozenset(self.of_operand(o, depth + 1)) for o in r["ops"]))}
        if r["k"] == "discr":
            short = (r.get("of_ty") or "").split("<")[0].split("::")[-1]
            return {("discr", frozenset(self.of_place(r["place"], depth)), short)}
        return Prov.of_rvalue(self, r, depth, line)


def _gprov_of_local(self, l, depth=0):
    """Prov.of_local, with the identity of crate-local callees kept on call roots (5th element) so that a private helper that merely
    builds a value can be replaced by what it builds."""
    import nf as _nf
    body = self.body
    if 1 <= l <= body["arg_count"]:
        return {("arg", l)}
    if depth > getattr(self, "max_depth", 12):
        return {("local", l)}
    ds = self.defs.get(l)
    if not ds:
        return {("local", l)}
    out = set()
    for d in ds:
        if d[0] == "rv":
            out |= self.of_rvalue(d[1], depth + 1, d[2])
        else:
            t = d[1]
            f = mirq.callee_of(t)
            nm = f["name"] if f else "<indirect>"
            if f is not None and self.transparent(f):
                out |= self.of_operand(t["args"][0]["op"], depth + 1)
            else:
                args = tuple(frozenset(self.of_operand(a["op"], depth + 1)) for a in t["args"])
                cid = _nf._callee_id(f)
                cb = None
                if cid is not None and depth < 10:
                    cb = _private_value_helper(self.facts, cid)
                if cb is not None and cb["key"] != body["key"]:
                    rr = GProv(cb, self.facts).of_local(0, depth + 2)
                    if not any(x[0] == "local" for x in rr):
                        out |= set(_nf.subst(frozenset(rr), {i + 1: set(a) for i, a in enumerate(args)}))
                        continue
                if f is not None and f.get("krate") == "chumsky" and not f.get("trait") and not f.get("self_ty") and nm in _ambiguous_free_fns(self.facts):
                    # `text::ascii::ident` and `text::unicode::ident` are different grammars: a free function whose name exists in
                    # several modules is named with its module
                    segs = str(f.get("path", "")).split("::")
                    if len(segs) >= 2:
                        nm = "%s::%s" % (segs[-2], nm)
                out.add(("call", nm, f.get("trait") if f else None, args))
    return out


_AMBIG = {}


def _ambiguous_free_fns(facts):
    k = id(facts)
    if k not in _AMBIG:
        _AMBIG.clear()
        paths = {}
        for b in facts.bodies:
            if b["kind"] == "Fn" and not b.get("impl_self") and not b.get("in_trait"):
                paths.setdefault(b["name"], set()).add(b.get("path"))
        _AMBIG[k] = {n for n, ps in paths.items() if len(ps) > 1}
    return _AMBIG[k]


_PVH = {}


def _private_value_helper(facts, cid):
    """The body of a private free function of the crate that only builds a value from its arguments (no loops, no `&mut` parameters):
    `fn not_ident_part(c, span) -> E { LabelError::expected_found([..], Some(MaybeRef::Val(c)), span) }`."""
    k = (id(facts), cid[0])
    if k in _PVH:
        return _PVH[k]
    res = None
    cands = [b for b in facts.bodies if b.get("path") == cid[0] and b["kind"] != "Closure"]
    if len(cands) == 1:
        b = cands[0]
        if not b.get("public") and not b.get("impl_trait") and not b.get("in_trait") and not b.get("impl_self_adt") \
                and not mirq.loops(b) and len(b["blocks"]) <= 24 \
                and not any(b["locals"][i]["ty"].startswith("&mut") for i in range(1, b["arg_count"] + 1)):
            res = b
    _PVH[k] = res
    return res


GProv.of_local = _gprov_of_local


class GPathProv(GProv):
    def __init__(self, body, facts, path):
        self.body = body
        self.facts = facts
        self.defs = {}
        for bb, _ in path:
            bl = body["blocks"][bb]
            for s in bl["stmts"]:
                if s["k"] == "assign" and not s["place"]["p"]:
                    self.defs[s["place"]["l"]] = [("rv", s["rv"], s.get("line"))]
            t = bl["term"]
            if t["k"] == "call" and not t["dest"]["p"]:
                self.defs[t["dest"]["l"]] = [("call", t, bl["line"])]


def _join(rs, F):
    return "|".join(sorted(F(x) for x in rs))


class Fmt:
    """Formatter of provenance roots that expands closures to decision tables."""

    def __init__(self, facts, env=None, depth=0, params=None):
        self.facts = facts
        self.env = env or {}       # upvar field name -> formatted parent term
        self.depth = depth
        self.params = params or {}  # closure parameter index -> formatted actual argument (beta-reduction)

    def roots(self, rs):
        return _join(rs, self.root)

    def root(self, r):
        F = self.root
        if not isinstance(r, tuple):
            return str(r)
        k = r[0]
        if k == "arg":
            if self.depth > 0:
                if r[1] == 1 and len(r) > 2 and r[2] in self.env:
                    return self.env[r[2]] + "".join("." + x for x in r[3:])
                if r[1] in self.params:
                    return self.params[r[1]] + "".join("." + x for x in r[2:])
                return "%s%d%s" % ("pqrstu"[min(self.depth, 6) - 1], r[1], "".join("." + x for x in r[2:]))
            return "arg%d%s" % (r[1], "".join("." + x for x in r[2:]))
        if k == "field":
            return F(r[1]) + "".join("." + x for x in r[2:])
        if k == "call":
            return "%s(%s)" % (r[1], ", ".join(_join(a, F) for a in r[3]))
        if k == "const":
            v = str(r[1]).replace("const ", "").strip()
            m = re.match(r"^(\d+)_(u8|u16|u32|u64|usize|u128)$", v)
            if v.endswith("::MAX") or (m and int(m.group(1)) == (1 << {"u8": 8, "u16": 16, "u32": 32, "u64": 64, "usize": 64, "u128": 128}[m.group(2)]) - 1):
                return "const MAX"
            m = re.match(r"^promoted&\[01([0-9a-f]{2})\]\+0:&std::option::Option<u8>$", v)
            if m:       # a promoted `Some(b'x')`: same value as the aggregate built at run time
                return "Some{0: const %d_u8}" % int(m.group(1), 16)
            return "const %s" % r[1]
        if k == "aggf":
            nm = r[1].split("::")
            nm = nm[-1] if nm[-1] and nm[-1] != nm[-2:][0] else nm[-1]
            return "%s{%s}" % (nm, ", ".join("%s: %s" % (n, _join(v, F)) for n, v in r[2]))
        if k == "array":
            return "[%s]" % ", ".join(_join(a, F) for a in r[1])
        if k == "bin":
            a_, b_ = _join(r[2], F), _join(r[3], F)
            if r[1] in ("Eq", "Ne", "Add", "Mul", "BitAnd", "BitOr", "BitXor") and b_ < a_:
                a_, b_ = b_, a_        # commutative: one operand order
            return "%s(%s, %s)" % (r[1], a_, b_)
        if k == "un":
            if r[1] == "Not" and len(r[2]) == 1:
                x = next(iter(r[2]))
                if x[0] == "const" and re.match(r"^(const )?0_(u8|u16|u32|u64|usize|u128)$", str(x[1]).strip()):
                    return "const MAX"
            return "%s(%s)" % (r[1], _join(r[2], F))
        if k == "local":
            return "?"
        if k == "agg":
            return str(r[1])
        if k == "discr":
            return "discr(%s)" % _join(r[1], F)
        if k == "closure" and False:
            pass
        if k == "fn":
            return "fn:" + str(r[1]).split("::")[-1]
        if k == "closure":
            if self.depth > 4:
                return "fn<..>"
            cb = self.facts.by_key.get(r[1])
            ups = {}
            for i, (n, v) in enumerate(r[2]):
                ups[str(i)] = _join(v, F)
                ups[n] = ups[str(i)]
            if cb is None:
                return "fn<?>"
            return "fn<%s>" % decision_table(self.facts, cb, ups, self.depth + 1)
        return str(r)


_FLIP = {"Ne": "Eq", "Ge": "Lt", "Gt": "Le"}
_FLIP_CALL = {"ne": "eq", "ge": "lt", "gt": "le", "is_none": "is_some", "is_err": "is_ok"}


def _norm_atom(root, val):
    """(root, bool) -> (canonical root, bool): strip negations, prefer eq / lt / le / is_some / is_ok."""
    while True:
        if root[0] == "un" and root[1] == "Not" and len(root[2]) == 1:
            root, val = next(iter(root[2])), not val
            continue
        if root[0] == "bin" and root[1] in _FLIP:
            root, val = ("bin", _FLIP[root[1]], root[2], root[3]), not val
            continue
        if root[0] == "call" and root[1] in _FLIP_CALL:
            root, val = ("call", _FLIP_CALL[root[1]], root[2], root[3]), not val
            continue
        if root[0] == "bin" and root[1] == "Eq":
            a, b = sorted([root[2], root[3]], key=lambda s: sorted(map(str, s)))
            root = ("bin", "Eq", a, b)
        if root[0] == "call" and root[1] == "eq" and len(root[3]) == 2:
            a, b = sorted(root[3], key=lambda s: sorted(map(str, s)))
            root = ("call", "eq", root[2], (a, b))
        return root, val


class Fallback(Exception):
    pass


def _single(rs):
    return next(iter(rs)) if len(rs) == 1 else None


def _const_bool(rs):
    r = _single(rs)
    if r is not None and r[0] == "const":
        v = str(r[1]).replace("const ", "").strip()
        if v in ("true", "false"):
            return v == "true"
    return None


def is_parser_closure(c):
    """Closures that receive the parser input are protocol bodies (rule CONTRACT interprets them)."""
    return any("InputRef<" in (l.get("ty") or "") for l in c["locals"][1:c["arg_count"] + 1])


def closure_rows(facts, c):
    """Per acyclic path of closure `c`: (literals [(root, bool)], outcome roots, effects).  Raises Fallback for
    loops / multi-way switches."""
    try:
        ps = mirq.paths(c, limit=3000)
    except RuntimeError:
        raise Fallback()
    if any(step[1] == "loop" for p in ps for step in p):
        raise Fallback()
    rows = []
    for p in ps:
        pp_ = GPathProv(c, facts, p)
        lits = []
        feasible = True
        for bb, idx in p:
            t = c["blocks"][bb]["term"]
            if t["k"] != "switch" or idx is None:
                continue
            choice = mirq.switch_choice(c, bb, idx)
            rs = pp_.of_operand(t["op"])
            vals = [v for v, _ in t["targets"]]
            r0 = _single(rs)
            if r0 is not None and r0[0] == "const":
                cv = str(r0[1]).replace("const ", "").strip()
                cv = {"true": 1, "false": 0}.get(cv, cv)
                ok = (cv not in vals) if choice == "otherwise" else (cv == choice)
                if not ok:
                    feasible = False
                    break
                continue
            if r0 is None:
                raise Fallback()
            pl = mirq.operand_place(t["op"])
            is_bool = pl is not None and c["locals"][pl["l"]]["ty"] == "bool"
            if is_bool and vals == [0]:
                lits.append((r0, choice == "otherwise"))
            elif r0[0] == "discr" and len(r0) > 2 and r0[2] in ("Option", "Result") and len(vals) == 1 and _single(r0[1]) is not None:
                # two-variant enum: the switch is a boolean test `is Some` / `is Ok`
                positive = 1 if r0[2] == "Option" else 0
                taken = vals[0] if choice != "otherwise" else 1 - vals[0]
                lits.append((("call", "is_some" if r0[2] == "Option" else "is_ok", None, (r0[1],)), taken == positive))
            else:
                raise Fallback()
        if not feasible:
            continue
        eff = []
        outcome = pp_.of_local(0)
        for bb, _ in p:
            t = c["blocks"][bb]["term"]
            if t["k"] == "call":
                f = mirq.callee_of(t)
                nm = f["name"] if f else "<indirect>"
                if f is not None and (nm in ("deref", "deref_mut", "clone", "borrow", "as_ref", "into", "from") or "precondition_check" in nm):
                    continue
                if not any(a["ty"].startswith("&mut") for a in t["args"]):
                    continue          # only calls that can mutate their arguments count as effects
                if nm in ("call", "call_mut", "call_once"):
                    continue
                # a value-returning call is part of the terms that use its value; a unit-returning one is a pure effect
                if not t["dest"]["p"] and c["locals"][t["dest"]["l"]]["ty"] != "()":
                    continue
                eff.append(nm)
        split = _split_then_some(facts, outcome)
        if split is not None:
            # `cond.then_some(v).ok_or_else(|| e)` / `.ok_or(e)`  ==  `if cond { Ok(v) } else { Err(e) }`
            cond, okv, errv = split
            rows.append((lits + [(cond, True)], okv, tuple(sorted(eff))))
            rows.append((lits + [(cond, False)], errv, tuple(sorted(eff))))
        else:
            rows.append((lits, outcome, tuple(sorted(eff))))
    return rows


def _split_then_some(facts, outcome):
    r = _single(outcome)
    if r is None or r[0] != "call" or r[1] not in ("ok_or_else", "ok_or") or len(r[3]) != 2:
        return None
    inner = _single(r[3][0])
    if inner is None or inner[0] != "call" or inner[1] not in ("then_some", "then") or len(inner[3]) != 2:
        return None
    cond = _single(inner[3][0])
    if cond is None:
        return None
    import nf as _nf

    def value_of(rs, params):
        clo = _single(rs)
        if clo is not None and clo[0] == "closure":
            cb = facts.by_key.get(clo[1])
            if cb is None:
                return None
            rr = GProv(cb, facts).of_local(0)
            ups2 = []
            for i, (n_, v_) in enumerate(clo[2]):       # captured variables are addressed by index in the closure's MIR
                ups2.append((str(i), v_))
                if n_ != str(i):
                    ups2.append((n_, v_))
            mapping = {1: {("closure", clo[1], tuple(ups2))}}
            for i, p_ in enumerate(params):
                mapping[2 + i] = set(p_)
            return _nf.subst(frozenset(rr), mapping)
        return frozenset(rs)
    okv = value_of(inner[3][1], []) if inner[1] == "then" else frozenset(inner[3][1])
    errv = value_of(r[3][1], []) if r[1] == "ok_or_else" else frozenset(r[3][1])
    if okv is None or errv is None:
        return None
    ok_out = {("aggf", "std::result::Result::Ok", (("0", frozenset(okv)),))}
    err_out = {("aggf", "std::result::Result::Err", (("0", frozenset(errv)),))}
    return cond, ok_out, err_out


def _merge(a, b):
    out = dict(a)
    for k, v in b.items():
        if k in out and out[k] != v:
            return None
        out[k] = v
    return out


def _product(xs, ys):
    out = []
    for a in xs:
        for b in ys:
            m = _merge(a, b)
            if m is not None:
                out.append(m)
    return out


class Expander:
    """Turns literals over provenance roots into DNF over canonical atom strings, expanding the std combinators that
    merely wrap a predicate (map_or / is_some_and / is_none_or / unwrap_or(map(..)) / calls of local closures)."""

    def __init__(self, facts, fm, depth):
        self.facts, self.fm, self.depth = facts, fm, depth

    def closure_of(self, rs):
        r = _single(rs)
        return r if (r is not None and r[0] == "closure") else None

    def apply_pred(self, clo, params, want):
        """DNF (list of cond dicts) under which closure value `clo` applied to `params` (formatted strings) returns `want`."""
        cb = self.facts.by_key.get(clo[1])
        if cb is None or self.depth > 5 or is_parser_closure(cb):
            raise Fallback()
        ups = {}
        for i, (n, v) in enumerate(clo[2]):
            ups[str(i)] = self.fm.roots(v)
            ups[n] = ups[str(i)]
        fm2 = Fmt(self.facts, ups, self.fm.depth + 1, params={i + 2: p_ for i, p_ in enumerate(params)})
        ex2 = Expander(self.facts, fm2, self.depth + 1)
        out = []
        for lits, outcome, eff in closure_rows(self.facts, cb):
            if eff:
                raise Fallback()
            base = ex2.dnf(lits)
            cb_ = _const_bool(outcome)
            if cb_ is not None:
                if cb_ == want:
                    out.extend(base)
                continue
            r = _single(outcome)
            if r is None:
                raise Fallback()
            out.extend(_product(base, ex2.lit(r, want)))
        return out

    def lit(self, root, val):
        root, val = _norm_atom(root, val)
        if root[0] == "call":
            nm, args = root[1], root[3]
            opt = None
            # (opt, default, pred)
            if nm == "map_or" and len(args) == 3 and _const_bool(args[1]) is not None and self.closure_of(args[2]):
                opt, d, pred = args[0], _const_bool(args[1]), self.closure_of(args[2])
            elif nm in ("is_some_and", "is_none_or") and len(args) == 2 and self.closure_of(args[1]):
                opt, d, pred = args[0], nm == "is_none_or", self.closure_of(args[1])
            elif nm == "unwrap_or" and len(args) == 2 and _const_bool(args[1]) is not None:
                m = _single(args[0])
                if m is not None and m[0] == "call" and m[1] == "map" and len(m[3]) == 2 and self.closure_of(m[3][1]):
                    opt, d, pred = m[3][0], _const_bool(args[1]), self.closure_of(m[3][1])
            if opt is not None:
                some = "is_some(%s)" % self.fm.roots(opt)
                payload = "%s.0" % self.fm.roots(opt)
                out = [dict(c, **{some: True}) for c in self.apply_pred(pred, [payload], val) if c.get(some, True)]
                if d == val:
                    out.append({some: False})
                return out
            if nm in ("call", "call_mut", "call_once") and len(args) == 2 and self.closure_of(args[0]):
                tup = _single(args[1])
                if tup is not None and tup[0] == "aggf" and tup[1] == "tuple":
                    return self.apply_pred(self.closure_of(args[0]), [self.fm.roots(v) for _, v in tup[2]], val)
        return [{self.fm.root(root): val}]

    def dnf(self, lits):
        out = [{}]
        for root, val in lits:
            out = _product(out, self.lit(root, val))
        return out


def decision_table(facts, c, ups=None, depth=0):
    """Canonical summary of closure body `c`: atoms + outcome per truth assignment; fallbacks: flow-insensitive return
    term + callee digest (loops, multi-way matches); parser closures are protocol bodies (see CONTRACT)."""
    ups = ups or {}
    fm = Fmt(facts, ups, depth)
    if is_parser_closure(c):
        return "parser-closure (protocol body: decided by CONTRACT)"
    try:
        rows = closure_rows(facts, c)
        ex = Expander(facts, fm, 0)
        flat = []
        for lits, outcome, eff in rows:
            o = fm.roots(outcome)
            for conds in ex.dnf(lits):
                flat.append((conds, o, eff))
        atoms = sorted({a for conds, _, _ in flat for a in conds})
        if len(atoms) > MAX_ATOMS:
            raise Fallback()
    except Fallback:
        import interp
        gp = GProv(c, facts)
        return "flow: %s digest:%s" % (fm.roots(gp.of_local(0)), interp.closure_digest(facts, c["key"]))
    table = {}
    for m in range(1 << len(atoms)):
        asg = {a: bool((m >> i) & 1) for i, a in enumerate(atoms)}
        outs = {(o, e) for conds, o, e in flat if all(asg[a] == v for a, v in conds.items())}
        key = " / ".join(sorted("%s%s" % (o, (" effects[%s]" % ",".join(e)) if e else "") for o, e in outs)) or "<diverges>"
        table.setdefault(key, []).append("".join("1" if asg[a] else "0" for a in atoms))
    if not atoms:
        return next(iter(table)) if table else "<diverges>"
    # atoms that never influence the outcome are dropped (tests whose branches rejoin)
    keep = []
    for i, a in enumerate(atoms):
        infl = False
        for k, rows_ in table.items():
            rs_ = set(rows_)
            for bits in rows_:
                flipped = bits[:i] + ("0" if bits[i] == "1" else "1") + bits[i + 1:]
                if flipped not in rs_:
                    infl = True
                    break
            if infl:
                break
        if infl:
            keep.append(i)
    if len(keep) < len(atoms):
        atoms2 = [atoms[i] for i in keep]
        t2 = {}
        for k, rows_ in table.items():
            t2[k] = sorted({"".join(bits[i] for i in keep) for bits in rows_})
        atoms, table = atoms2, t2
        if not atoms:
            return next(iter(table))
    parts = ["%s iff %s" % (k, ",".join(sorted(v))) for k, v in sorted(table.items())]
    return "atoms[%s] %s" % ("; ".join(atoms), "; ".join(parts))


def grammar_term(facts, b):
    pv = GProv(b, facts)
    fm = Fmt(facts)
    parts = []
    # field writes through &mut self (builder setters)
    rets = set(mirq.return_blocks(b))
    for i, bl, s in assigns(b):
        if s["place"]["l"] == 1 and s["place"]["p"] and b["arg_count"] >= 1:
            always = not (mirq.reachable(b, 0, avoid={i}) & rets)
            parts.append("self.%s := %s [%s]" % (".".join(mirq.field_path(s["place"])), fm.roots(pv.of_rvalue(s["rv"], 0)), "always" if always else "sometimes"))
    parts.sort()
    parts.append("returns " + fm.roots(pv.of_local(0)))
    return parts


IN_SCOPE = re.compile(
    r"^(Parser|IterParser|ConfigParser|ConfigIterParser)::\w+$|"
    r"^(primitive|recovery|pratt|recursive|number|regex|text|text::ascii|text::unicode|extension::v1|label|combinator|input|stream)::[a-z_0-9]+$|"
    r"^(combinator::(Repeated|SeparatedBy|RepeatedCfg|SeparatedByCfg)|primitive::JustCfg|recursive::Recursive|pratt::Associativity|label::Labelled|"
    r"input::Input|input::IoInput|stream::Stream|stream::IterInput)::\w+$")
SKIP_NAMES = {"clone", "fmt", "default", "go", "go_emit", "go_check", "next", "make_iter", "parse", "check", "parse_with_state", "check_with_state",
              "left_power", "right_power", "parser", "cached"}


def in_scope_bodies(facts):
    out = []
    for b in facts.bodies:
        if b["kind"] == "Closure":
            continue
        # the Default values of the run-time configuration structs ("inherit the static setting")
        if b.get("impl_trait") == "std::default::Default" and re.search(r"Cfg\[std::default::Default\]::default$", b["qname"]):
            out.append(b)
            continue
        if b.get("from_expansion"):
            continue
        if not IN_SCOPE.match(b["qname"]) or b["name"] in SKIP_NAMES:
            continue
        if b.get("impl_trait"):
            continue
        out.append(b)
    return out


def compute_all(facts):
    comp = {}
    for b in in_scope_bodies(facts):
        key = b["qname"]
        if key in comp:       # overloaded qname (cfg variants): keep both
            key = b["uname"]
        comp[key] = grammar_term(facts, b)
    return comp


SCOPES = {
    "C01": r"^Parser::(then|ignore_then|then_ignore|delimited_by|padded_by|or|or_not|not|and_is|rewind|map|map_with|to|ignored|to_slice|to_span|filter|"
           r"try_map|try_map_with|unwrapped|validate|boxed|from_str|padded)$|^primitive::(any|any_ref|choice|custom|empty|end|group|just|none_of|one_of|select|select_ref)$",
    "C02": r"^Parser::(repeated|separated_by|foldl|foldl_with|into_iter)$|^IterParser::|^combinator::(Repeated|SeparatedBy|RepeatedCfg)::|^combinator::\w+Cfg\[std::default::Default\]::default$",
    "C03": r"^Parser::lazy$",
    "C07": r"^Parser::(to_slice|to_span|map_with)$|^input::Input::|^regex::regex$",   # regex(): a byte-mode pattern on &str ends a match inside a character
    "C08": r"^recovery::|^Parser::recover_with$",
    "C09": r"^pratt::|^Parser::pratt$",
    "C10": r"^input::Input::|^input::IoInput::|^stream::",
    "C11": r"^Parser::memoized$",
    "C12": r"^recursive::",
    "C14": r"^text::|^number::|^regex::|^Parser::padded$",
    "C15": r"^Config(Iter)?Parser::|^Parser::(with_ctx|ignore_with_ctx|then_with_ctx)$|^primitive::(map_ctx|JustCfg::)|^combinator::RepeatedCfg::|Cfg\[std::default::Default\]::default$",
    "C16": r"^Parser::nested_in$|^input::Input::",
    "C17": r"^Parser::(labelled|map_err|map_err_with_state)$|^label::Labelled::",
    "C18": r"^Parser::with_state$",
}


def _split_top(sx, sep=", "):
    out, depth, cur, i = [], 0, "", 0
    while i < len(sx):
        c = sx[i]
        if c in "([{":
            depth += 1
        elif c in ")]}":
            depth -= 1
        if depth == 0 and sx.startswith(sep, i):
            out.append(cur)
            cur = ""
            i += len(sep)
            continue
        cur += c
        i += 1
    if cur:
        out.append(cur)
    return out


def builder_shapes(table):
    """ADT name -> (builder name, [field -> arg index]) for every reviewed builder that is a pure wiring of its arguments into one
    struct literal: `Parser::then_ignore = ThenIgnore{parser_a: arg1, parser_b: arg2, phantom: new()}`."""
    shapes = {}
    for q, want in table.items():
        if len(want) != 1 or not want[0].startswith("returns "):
            continue
        t = want[0][len("returns "):]
        m = re.match(r"^([A-Z]\w*)\{(.*)\}$", t)
        if not m:
            continue
        fields = []
        ok = True
        for fv in _split_top(m.group(2)):
            if ": " not in fv:
                ok = False
                break
            fn_, v = fv.split(": ", 1)
            if fn_ == "phantom" or v in ("new()", "PhantomData{}", "EmptyPhantom{0: PhantomData{}}"):
                fields.append((fn_, None))
            elif re.match(r"^arg\d+$", v):
                fields.append((fn_, int(v[3:])))
            else:
                ok = False
                break
        args = sorted(a for _, a in fields if a is not None)
        if ok and args and args == list(range(1, len(args) + 1)) and m.group(1) not in shapes:
            shapes[m.group(1)] = (q.split("::")[-1], fields)
    return shapes


def fold_builders(term, shapes):
    """Rewrite every struct literal that is exactly what a reviewed builder builds into the call of that builder
    (`ThenIgnore{parser_a: X, parser_b: Y, phantom: new()}` -> `then_ignore(X, Y)`), innermost first: writing the literal instead of
    calling the constructor method is the same grammar."""
    out, i = "", 0
    while i < len(term):
        m = re.compile(r"([A-Z]\w*)\{").match(term, i)
        if m and (i == 0 or not (term[i - 1].isalnum() or term[i - 1] == "_")):
            j, depth = m.end(), 1
            while j < len(term) and depth:
                if term[j] in "([{":
                    depth += 1
                elif term[j] in ")]}":
                    depth -= 1
                j += 1
            inner = term[m.end():j - 1]
            name = m.group(1)
            fvs = [fv.split(": ", 1) for fv in _split_top(inner) if ": " in fv]
            fvs = [(a, fold_builders(b, shapes)) for a, b in fvs]
            sh = shapes.get(name)
            if sh is not None and sorted(a for a, _ in fvs) == sorted(a for a, _ in sh[1]):
                fvs = [(a, dict(fvs)[a]) for a, _ in sh[1]]
                byarg = {}
                for (fn_, argi), (_, v) in zip(sh[1], fvs):
                    if argi is not None:
                        byarg[argi] = v
                out += "%s(%s)" % (sh[0], ", ".join(byarg[k] for k in sorted(byarg)))
            else:
                # the order of the fields in a struct definition / literal is not part of the grammar
                out += "%s{%s}" % (name, ", ".join("%s: %s" % (a, b) for a, b in sorted(fvs)))
            i = j
            continue
        out += term[i]
        i += 1
    return out


def rule_grammar_for(pid):
    pat = re.compile(SCOPES[pid])
    return lambda facts: rule_grammar(facts, only=lambda q: bool(pat.search(q)), name="GRAMMAR", floor_key="GRAMMAR.%s.builders" % pid)


def rule_grammar(facts, only=None, name="GRAMMAR", floor_key=None):
    import grammar_table as GT
    r = RuleResult(name)
    comp = compute_all(facts)
    n = 0
    nclos = 0
    for q, want in sorted(GT.table_for(facts).items()):
        if only is not None and not only(q):
            continue
        got = comp.get(q)
        if got is None:
            r.errors.append("anchor %s: no such builder in this configuration" % q)
            continue
        n += 1
        nclos += sum(x.count("fn<") for x in got)
        ok = sorted(got) == sorted(want)
        if not ok:
            # the same grammar written with struct literals where the reference calls the constructor methods (or vice versa)
            shapes = builder_shapes(GT.table_for(facts))
            own = q.split("::")[-1]
            sh2 = {k: v for k, v in shapes.items() if v[0] != own}     # a builder is not folded into itself
            ok = sorted(fold_builders(x, sh2) for x in got) == sorted(fold_builders(x, sh2) for x in want)
            if not ok:
                import nf as _nf
                ok = _nf.equal_up_to_renaming(list(got), list(want), canon=lambda x: fold_builders(x, sh2))
        r.ob(ok)
        if len(r.samples) < 4 and ("fn<" in " ".join(got)):
            r.samples.append({q: got})
        if not ok:
            b = facts.by_qname[q][0] if q in facts.by_qname else None
            diff_g = [x for x in got if x not in want]
            diff_w = [x for x in want if x not in got]
            r.violations.append(V(name, q, "grammar term",
                                  "%s must build exactly the reviewed grammar / value (children wired to the right fields, reviewed constants, "
                                  "token predicates with the reviewed decision table): computed %s ; expected %s" % (q, diff_g, diff_w),
                                  b["file"] if b else None, b["line"] if b else None))
    r.explanation = ("%d builder functions (Parser/IterParser provided methods, free constructors, text / recovery / pratt grammar functions) "
                     "build exactly the reviewed grammar term; %d token-predicate closures inside them have the reviewed decision table "
                     "(spec/grammar_table.py)" % (n, nclos))
    r.nontrivial = n
    r.info = {"builders": n, "closures": nclos}
    r.require_floor(n, facts, floor_key or ("%s.builders" % name), "builder functions compared")
    return r

"""CHAR-SIB / REGEX-ANCHOR (C14): agreement of the three `text::Char` implementations and the regex parser's
anchoring.  (The languages of int/digits/ident/keyword are composed grammars over value predicates: declined.)"""
import re

import mirq
from mirq import calls, assigns, callee_of, callee_path, Prov, fmt_roots
from report import RuleResult, V


def loc(b, line=None):
    return b["file"], (line if line is not None else b["line"])


def parse_lit(s):
    """Rust literal as printed by rustc -> ('char', cp) | ('u8', n) | ('str', text) | None."""
    s = s.strip().replace("const ", "")
    m = re.match(r"^(\d+)_u8$", s)
    if m:
        return ("u8", int(m.group(1)))
    m = re.match(r"^b?'(.*)'$", s, re.S)
    if m:
        t = unescape(m.group(1))
        if t is not None and len(t) == 1:
            return ("char", ord(t))
    m = re.match(r'^"(.*)"$', s, re.S)
    if m:
        t = unescape(m.group(1))
        if t is not None:
            return ("str", t)
    return None


def unescape(t):
    out = ""
    i = 0
    while i < len(t):
        c = t[i]
        if c != "\\":
            out += c
            i += 1
            continue
        n = t[i + 1] if i + 1 < len(t) else ""
        if n == "n":
            out += "\n"; i += 2
        elif n == "r":
            out += "\r"; i += 2
        elif n == "t":
            out += "\t"; i += 2
        elif n == "0":
            out += "\0"; i += 2
        elif n in ("\\", "'", '"'):
            out += n; i += 2
        elif n == "x":
            out += chr(int(t[i + 2:i + 4], 16)); i += 4
        elif n == "u":
            j = t.index("}", i)
            out += chr(int(t[i + 3:j], 16)); i = j + 1
        else:
            return None
    return out


DOC_NEWLINES = {"\n", "\r", "\x0b", "\x0c", "\u0085", "\u2028", "\u2029"}


def body_literals(b):
    lits = []
    for _, bl, s in assigns(b):
        rv = s["rv"]
        for o in [rv.get("op"), rv.get("a"), rv.get("b")] + list(rv.get("ops") or []):
            if isinstance(o, dict) and "k" in o and "val" in o["k"] and o["k"].get("promoted") is None:
                l = parse_lit(o["k"]["val"])
                if l:
                    lits.append(l)
    for _, bl, t, f in calls(b):
        for a in t["args"]:
            o = a["op"]
            if "k" in o and "val" in o["k"] and o["k"].get("promoted") is None:
                l = parse_lit(o["k"]["val"])
                if l:
                    lits.append(l)
    # `matches!(c, 'a' | 'b')` lowers to a SwitchInt on the char / byte value
    for _, bl in mirq.blocks(b):
        t = bl["term"]
        if t["k"] == "switch" and t.get("op_ty") in ("char", "u8"):
            for v, _ in t["targets"]:
                lits.append(("char" if t["op_ty"] == "char" else "u8", int(v)))
    for pl in b.get("promoted_consts") or []:
        for c in pl:
            l = parse_lit(c)
            if l:
                lits.append(l)
    return lits


class _Unsupported(Exception):
    pass


def _eval_pred(b, value):
    """Evaluate a pure integer predicate body (`fn(&self) -> bool` over u8 / char: comparisons, range tests, `matches!`, boolean
    connectives; no calls) at one point of its domain.  This is constant folding of a decision table - one row per interval between
    the constants the predicate mentions - not a run of a parser."""
    env = {1: ("ref", value)}

    def const(k):
        v = k.get("val", "")
        l = parse_lit(v)
        if l:
            return l[1]
        if v in ("true", "false"):
            return v == "true"
        m = re.match(r"^(-?\d+)_", v)
        if m:
            return int(m.group(1))
        raise _Unsupported("const %s" % v)

    def place(pl):
        if pl["l"] not in env:
            raise _Unsupported("uninitialised local")
        v = env[pl["l"]]
        for e in pl["p"]:
            if e == "*":
                if isinstance(v, tuple) and v[0] == "ref":
                    v = v[1]
                else:
                    raise _Unsupported("deref")
            else:
                raise _Unsupported("projection")
        return v

    def operand(o):
        if "k" in o:
            if o["k"].get("promoted") is not None:
                raise _Unsupported("promoted")
            return const(o["k"])
        return place(o.get("c") or o.get("m"))
    OPS = {"Eq": lambda a, c: a == c, "Ne": lambda a, c: a != c, "Lt": lambda a, c: a < c, "Le": lambda a, c: a <= c,
           "Gt": lambda a, c: a > c, "Ge": lambda a, c: a >= c, "BitAnd": lambda a, c: a & c, "BitOr": lambda a, c: a | c,
           "BitXor": lambda a, c: a ^ c, "Sub": lambda a, c: a - c, "Add": lambda a, c: a + c}
    bb = 0
    for _ in range(400):
        bl = b["blocks"][bb]
        for st in bl["stmts"]:
            if st["k"] != "assign":
                continue
            rv = st["rv"]
            if st["place"]["p"]:
                raise _Unsupported("projected write")
            k = rv["k"]
            if k == "use":
                v = operand(rv["op"])
            elif k in ("ref", "rawptr"):
                v = ("ref", place(rv["place"]))
            elif k == "copyderef":
                v = place(rv["place"])
            elif k == "bin":
                op = rv["op"].replace("WithOverflow", "").replace("Unchecked", "")
                if op not in OPS:
                    raise _Unsupported(op)
                v = OPS[op](operand(rv["a"]), operand(rv["b"]))
            elif k == "un" and rv["op"] == "Not":
                x = operand(rv["a"])
                v = (not x) if isinstance(x, bool) else ~x
            elif k == "cast":
                v = operand(rv["op"])
            else:
                raise _Unsupported(k)
            env[st["place"]["l"]] = v
        t = bl["term"]
        if t["k"] == "ret":
            return bool(env.get(0))
        if t["k"] == "goto":
            bb = t["t"]
        elif t["k"] == "switch":
            v = operand(t["op"])
            v = int(v) if not isinstance(v, tuple) else None
            nxt = None
            for val, tgt in t["targets"]:
                if int(val) == v:
                    nxt = tgt
            bb = nxt if nxt is not None else t["otherwise"]
        elif t["k"] == "assert":
            bb = t["t"]
        else:
            raise _Unsupported(t["k"])
    raise _Unsupported("no return")


def _accepted_set(b, kind, probe):
    """The values accepted by predicate body `b` among the break points of its domain (every constant the body mentions and its two
    neighbours, the ends of the domain) plus `probe`: a predicate made of comparisons with constants is constant between break
    points, so this decides its accepted set exactly.  None if the body is not such a predicate (then the literal table is used)."""
    try:
        top = 0xFF if kind == "u8" else 0x10FFFF
        pts = {0, top} | {ord(c) for c in probe if ord(c) <= top}
        for k, v in body_literals(b):
            if k in ("char", "u8") and isinstance(v, int):
                pts |= {v - 1, v, v + 1}
        pts = {p for p in pts if 0 <= p <= top and not (0xD800 <= p <= 0xDFFF)}
        return {chr(v) for v in pts if _eval_pred(b, v)}
    except (_Unsupported, KeyError, TypeError, ValueError):
        return None


def rule_char_sib(facts):
    r = RuleResult("CHAR-SIB")
    impls = {}
    for b in facts.bodies:
        if b.get("impl_trait") == "text::Char" and b["kind"] != "Closure":
            impls.setdefault(b.get("impl_self"), {})[b["name"]] = b
    kinds = {}
    for st in impls:
        if st == "char":
            kinds["char"] = impls[st]
        elif st == "u8":
            kinds["u8"] = impls[st]
        elif "Grapheme" in st:
            kinds["grapheme"] = impls[st]
    r.require_floor(len(kinds), facts, "CHAR-SIB.impls", "Char implementations found")
    if "char" not in kinds:
        r.errors.append("no `impl Char for char`")
        return r

    # a Char method that an impl does not define runs the trait's provided body (for every token type)
    defaults = {b["name"]: b for b in facts.bodies if b.get("in_trait") == "text::Char" and b["kind"] != "Closure"}

    def table(kind, meth):
        b = kinds[kind].get(meth)
        if b is None and meth in defaults:
            # decided on the provided body: its accepted set is whatever the methods it calls accept - not a literal table.  The
            # literals it mentions are all the rule can attribute to it; `is_whitespace() && !is_newline()` mentions none, i.e. it is
            # no longer the documented two-character set
            b = defaults[meth]
            lits = body_literals(b)
            return {chr(v) if k in ("char", "u8") else v for k, v in lits}, b
        if b is None:
            return None, None
        if kind in ("u8", "char") and meth in ("is_newline", "is_inline_whitespace"):
            acc = _accepted_set(b, kind, DOC_NEWLINES | {" ", "\t"})
            if acc is not None:
                return acc, b
        lits = body_literals(b)
        vals = set()
        for k, v in lits:
            if k == "char":
                vals.add(chr(v))
            elif k == "u8":
                vals.add(chr(v))
            elif k == "str":
                vals.add(v)
        return vals, b

    # ---- newline tables
    Tc, bc = table("char", "is_newline")
    r.samples.append({"char newline table": sorted("U+%04X" % ord(c) for c in Tc)})
    ok = Tc is not None and len(Tc) >= 1 and all(len(c) == 1 for c in Tc)
    r.ob(ok)
    if "u8" in kinds:
        Tb, bb = table("u8", "is_newline")
        want = {c for c in Tc if ord(c) < 0x80}
        ok = Tb == want
        r.ob(ok)
        if not ok:
            r.violations.append(V("CHAR-SIB", bb["uname"], "u8 newline table",
                                  "u8's line terminators must be exactly the ASCII ones of char's table: %s vs %s"
                                  % (sorted(map(repr, Tb)), sorted(map(repr, want))), *loc(bb)))
    if "grapheme" in kinds:
        Tg, bg = table("grapheme", "is_newline")
        want = set(Tc) | {"\r\n"}
        ok = Tg == want
        r.ob(ok)
        if not ok:
            r.violations.append(V("CHAR-SIB", bg["uname"], "grapheme newline table",
                                  "the grapheme line terminators must be char's table plus CRLF: %s vs %s"
                                  % (sorted(map(repr, Tg)), sorted(map(repr, want))), *loc(bg)))
    # the documented eight terminators = the seven code points + CRLF
    doc = {"\n", "\r", "\x0b", "\x0c", "\u0085", "\u2028", "\u2029"}
    ok = Tc == doc
    r.ob(ok)
    if not ok:
        r.violations.append(V("CHAR-SIB", bc["uname"], "char newline table",
                              "char's line terminators must be the documented seven code points (LF CR VT FF NEL LS PS): found %s"
                              % sorted("U+%04X" % ord(c) for c in Tc), *loc(bc)))
    # ---- inline whitespace, digit zero
    for meth, want in (("is_inline_whitespace", {" ", "\t"}), ("digit_zero", {"0"})):
        for kind in kinds:
            T, b = table(kind, meth)
            if kind == "grapheme" and meth == "digit_zero":
                g = facts.find("text::unicode::Grapheme::digit_zero")
                if len(g) == 1:
                    T = {v if k == "str" else chr(v) for k, v in body_literals(g[0])}
                    b = g[0]
            if b is None:
                r.errors.append("%s::%s not found" % (kind, meth))
                continue
            ok = T == want
            r.ob(ok)
            if not ok:
                r.violations.append(V("CHAR-SIB", b["uname"], meth, "%s for %s must be %s, found %s" % (meth, kind, sorted(map(repr, want)), sorted(map(repr, T))), *loc(b)))
    # ---- u8 delegates classification to char on `*self as char`
    if "u8" in kinds:
        for meth, target in (("is_digit", "is_digit"), ("is_ident_start", "is_ident_start"), ("is_ident_continue", "is_ident_continue")):
            b = kinds["u8"].get(meth)
            if b is None:
                r.errors.append("u8::%s not found" % meth)
                continue
            pv = Prov(b)
            cs = [(t, f) for _, _, t, f in calls(b) if f is not None and not (f["name"] in ("from", "into") and f.get("krate") != "chumsky")]
            ok = len(cs) == 1 and cs[0][1]["name"] == target and ("char" in cs[0][1].get("self_ty", "char") or "char" in callee_path(cs[0][1]))
            if ok:
                a0 = pv.of_operand(cs[0][0]["args"][0]["op"])
                ok = a0 == {("arg", 1)}
                if meth == "is_digit":
                    ok = ok and pv.of_operand(cs[0][0]["args"][1]["op"]) == {("arg", 2)}
            r.ob(ok)
            if not ok:
                r.violations.append(V("CHAR-SIB", b["uname"], "u8 delegates to char",
                                      "u8::%s must be `(*self as char).%s(..)` so that &[u8] and &str classify ASCII identically; calls %s"
                                      % (meth, target, [callee_path(f) for _, f in cs]), *loc(b)))
        b = kinds["char"].get("is_digit")
        pv = Prov(b)
        cs = [(t, f) for _, _, t, f in calls(b) if f is not None]
        ok = len(cs) == 1 and cs[0][1]["name"] == "is_digit" and pv.of_operand(cs[0][0]["args"][0]["op"]) == {("arg", 1)} and pv.of_operand(cs[0][0]["args"][1]["op"]) == {("arg", 2)}
        r.ob(ok)
        if not ok:
            r.violations.append(V("CHAR-SIB", b["uname"], "char::is_digit", "char's Char::is_digit must be char::is_digit(*self, radix)", *loc(b)))
    r.explanation = ("the three text::Char impls agree: newline tables (char: the seven documented code points; u8: its ASCII subset; grapheme: "
                     "the same plus CRLF), inline whitespace {SP, TAB}, digit_zero '0'; u8's is_digit/is_ident_start/is_ident_continue "
                     "delegate to char's on `*self as char` with the radix passed through")
    r.nontrivial = r.obligations
    return r


def _skip_bytes_clause(facts, r):
    """InputRef::skip_bytes(n) is `cursor += n`, unconditionally: the byte-oriented parsers (regex, number) hand it the length of
    what they matched in the *slice*, so re-deriving the end position from token boundaries (a token loop, a clamp) moves the cursor
    somewhere else whenever tokens and bytes differ (grapheme input)."""
    bs = facts.find("input::InputRef::skip_bytes")
    if not bs:
        return 0
    b = bs[0]
    pv = Prov(b)
    ws = []
    for i, bl, s in mirq.assigns(b):
        pl = s["place"]
        fp = mirq.field_path(pl)
        if fp and fp[-1] == "cursor" and pl["l"] == 1:
            ws.append((i, pv.of_rvalue(s["rv"], 0)))

    def is_sum(x):
        if x[0] == "field":
            x = x[1]
        return x[0] == "bin" and x[1] in ("Add", "AddWithOverflow", "AddUnchecked") and \
            {frozenset(x[2]), frozenset(x[3])} == {frozenset({("arg", 1, "cursor")}), frozenset({("arg", 2)})}
    rets = set(mirq.return_blocks(b))
    readers = [f["name"] for _, _, _, f in calls(b) if f is not None and (f["name"].startswith("next") or f["name"] in ("skip_while", "rewind", "rewind_input"))]
    ok = len(ws) == 1 and all(is_sum(x) for x in ws[0][1]) and bool(ws[0][1]) \
        and not (mirq.reachable(b, 0, avoid={ws[0][0]}) & rets) and not mirq.loops(b) and not readers
    r.ob(ok)
    r.samples.append({"skip_bytes": [fmt_roots(w) for _, w in ws]})
    if not ok:
        r.violations.append(V("REGEX-ANCHOR", b["qname"], "skip_bytes is cursor += n",
                              "InputRef::skip_bytes must add exactly its argument to the cursor on every path (the regex / number parsers pass the "
                              "byte length of their match): found %d cursor write(s) %s, loops=%d, token readers=%s"
                              % (len(ws), [fmt_roots(w)[:80] for _, w in ws], len(mirq.loops(b)), readers), *loc(b)))
    return 1


def rule_regex_anchor(facts):
    r = RuleResult("REGEX-ANCHOR")
    nsk = _skip_bytes_clause(facts, r)
    bs = facts.find("regex::Regex[Parser]::go")
    if len(bs) != 1:
        if "regex" in facts.features:
            r.errors.append("anchor regex::Regex::go: %d bodies" % len(bs))
        r.explanation = "regex feature off"
        return r
    b = bs[0]
    pv = Prov(b)
    cs = {f["name"]: (t, f) for _, _, t, f in calls(b) if f is not None and callee_path(f).startswith("regex_automata::")}
    ok = all(k in cs for k in ("new", "anchored", "range", "find"))
    why = "calls %s" % sorted(cs)
    if ok:
        hay = pv.of_operand(cs["new"][0]["args"][0]["op"])
        ok_h = all(x[0] == "call" and x[1] == "full_slice" for x in hay) and bool(hay)
        anch = cs["anchored"][0]["args"][1]["op"]
        av = pv.of_operand(anch)
        ok_a = any("Yes" in str(x) for x in av)
        rng = pv.of_operand(cs["range"][0]["args"][1]["op"])
        ok_r = any(x[0] == "aggf" and "RangeFrom" in x[1] and any(k == "start" and mirq.roots_mention(v, lambda y: isinstance(y, tuple) and y[0] == "call" and y[1] == "cursor") for k, v in x[2]) for x in rng)
        chain = mirq.roots_mention(pv.of_operand(cs["find"][0]["args"][1]["op"]), lambda y: isinstance(y, tuple) and y[0] == "call" and y[1] == "range")
        sk = [(t, f) for _, _, t, f in calls(b) if f is not None and f["name"] == "skip_bytes"]
        ok_s = len(sk) == 1 and mirq.roots_mention(pv.of_operand(sk[0][0]["args"][1]["op"]), lambda y: isinstance(y, tuple) and y[0] == "call" and y[1] in ("map", "find"))
        ok = ok_h and ok_a and ok_r and chain and ok_s
        why = "haystack=%s anchored=%s range=%s find(range(..))=%s skip=match-length:%s" % (fmt_roots(hay), fmt_roots(av), fmt_roots(rng)[:80], chain, ok_s)
    r.ob(ok)
    r.samples.append({"regex": why})
    if not ok:
        r.violations.append(V("REGEX-ANCHOR", b["uname"], "anchored search at the cursor",
                              "regex() must search the WHOLE input slice (look-behind context intact) anchored (Anchored::Yes) with "
                              ".range(cursor..) and advance by the match length; found: %s" % why, *loc(b)))
    r.explanation = "Regex::go: haystack = full_slice(), Anchored::Yes, range(cursor..), the search input is the ranged one, skip_bytes(match length)"
    r.nontrivial = 1 + nsk
    return r

"""Property -> rule composition."""
import rules_protocol as RP

ASSUME_COMMON = [
    "rustc's type checker, MIR construction and drop elaboration (facts are read from the compiler, -Zmir-opt-level=0)",
    "spec/models: effects of std adaptors (Try::branch, Result/Option combinators, Clone) as listed in engine/models.py",
    "user-supplied parsers reached through custom()/ExtParser obey the documented contract: Err => input unspecified",
    "structural induction over the combinator tree: each body is checked against the contract assuming its children satisfy it",
]


def _in(*subs):
    return lambda u: any(s in u for s in subs)


def C05(tier):
    run = RP.get_run("all")
    return RP.discipline(run, ["POISON", "KEEP", "LIFO"])


def C06(tier):
    run = RP.get_run("all")
    return RP.discipline(run, ["ALT-LINEAR", "ALT-POS", "PFAIL"])


def C20(tier):
    run = RP.get_run("all")
    return RP.discipline(run, ["PFAIL"])


PROPS = {"C05": C05, "C06": C06, "C20": C20}

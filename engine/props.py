"""Property -> rule composition.

Every property is decided by a list of rules.  A rule is a callable `rule(facts) -> RuleResult`
(structural rules) or one of the typestate-interpreter disciplines (`D:<NAME>`).  The quick tier
evaluates the rules on the all-stable-features configuration; the thorough tier additionally
evaluates them on the other feature configurations and runs the compile-fail witnesses and the
self-test mutant corpus of that property (see thorough.py).
"""
import facts as factsmod
import rules_protocol as RP
import rules_struct as RS
import rules_hooks as RH
import rules_contracts as RC
import rules_entry as RE
import rules_types as RT
import rules_text as RX
import rules_input as RI
import rules_grammar as RG
import rules_helpers as RHP
import rules_macro as RM

ASSUME_COMMON = [
    "rustc's type checker, MIR construction and drop elaboration (facts are read from the compiler, -Zmir-opt-level=0)",
    "spec/models: effects of std adaptors (Try::branch, Result/Option combinators, Clone) as listed in engine/models.py",
    "user-supplied parsers reached through custom()/ExtParser obey the documented contract: Err => input unspecified",
    "structural induction over the combinator tree: each body is checked against the contract assuming its children satisfy it",
]

# rule name -> callable(facts) ; "D:X" = typestate discipline X
STRUCT = {
    "FREEZE": RS.rule_freeze,
    "STATICS": RS.rule_statics,
    "OWN-STATE": RS.rule_own_state,
    "RECURSE": RS.rule_recurse,
    "MODE-PAIR": RS.rule_mode_pair,
    "MODE-PURE": RS.rule_mode_pure,
    "UNSAFE-INV": RS.rule_unsafe_inv,
    "MAYBEUNINIT": RS.rule_maybeuninit,
    "NO-BACKTRACK": RS.rule_no_backtrack,
    "HOOKS-WRITERS": RH.rule_who_may_write,
    "HOOKS-TOKEN": RH.rule_token_hooks,
    "HOOKS-SAVE-REWIND": RH.rule_save_rewind,
    "SUB-INPUT": RH.rule_sub_inputs,
    "ENTRY": RE.rule_entry,
    "CLONE-FIELDS": RT.rule_clone_fields,
    "ONCE": RT.rule_once,
    "MEMO-KEY": RT.rule_memo_key,
    "AFFINE": RT.rule_affine,
    "ERR-SPAN": RT.rule_err_span,
    "ORDER-ARMS": RT.rule_order_arms,
    "CONTAINER-PROV": RT.rule_container_prov,
    "SEQ-PROV": RT.rule_seq_prov,
    "MERGE-ARMS": RT.rule_merge_arms,
    "MEMO-WRITERS": RT.rule_memo_writers,
    "BUILDER-PROV": RT.rule_builder_prov,
    "CHAR-PROV": RT.rule_char_prov,
    "ERR-PROV": RT.rule_err_prov,
    "ENTRY-SIB": RT.rule_entry_sib,
    "NONCONSUMPTION-FWD": RT.rule_nonconsumption,
    "CHAR-SIB": RX.rule_char_sib,
    "REGEX-ANCHOR": RX.rule_regex_anchor,
    "READER-SIB": RI.rule_reader_sib,
    "SPAN-PROV": RI.rule_span_prov,
    "SPAN-EMPTY": RI.rule_span_empty,
    "SPAN-IMPL": RI.rule_span_impl,
    "ALLOC-INV": RHP.rule_alloc_inv,
    "OVERRIDE-INV": RHP.rule_override_inv,
    "CTOR-INV": RHP.rule_ctor_inv,
    "PANIC-INV": RHP.rule_panic_inv,
    "MACRO-EXPAND": RM.rule_macro_expand,
    "STREAM": RI.rule_stream,
    "INPUT-MISC": RI.rule_input_misc,
}

# "K" = the contract automata that serve this property (spec/contract_map.py)
PROP_RULES = {
    "C01": ["K", "D:POISON", "SEQ-PROV", "GRAMMAR", "ENTRY", "ENTRY-SIB", "CLONE-FIELDS", "MODE-PAIR", "NO-BACKTRACK", "HELPER-PROV", "READER-SIB", "INPUT-MISC", "OVERRIDE-INV", "MACRO-EXPAND", "STREAM"],
    "C02": ["K", "D:POISON", "BUILDER-PROV", "GRAMMAR", "CLONE-FIELDS", "ENTRY-SIB", "MODE-PAIR", "HELPER-PROV", "ALLOC-INV"],
    "C03": ["ENTRY", "K", "STREAM", "D:POISON", "MODE-PURE", "GRAMMAR", "ENTRY-SIB", "SUB-INPUT", "D:KEEP*", "HOOKS-WRITERS", "INPUT-MISC", "MODE-PAIR", "HELPER-PROV", "OVERRIDE-INV", "CTOR-INV", "HOOKS-SAVE-REWIND"],
    "C04": ["MODE-PAIR", "MODE-PURE", "K", "D:POISON", "ENTRY-SIB", "OVERRIDE-INV", "REGEX-ANCHOR"],
    "C05": ["D:POISON", "D:KEEP", "D:LIFO", "HOOKS-SAVE-REWIND", "HOOKS-WRITERS", "MODE-PURE", "SUB-INPUT", "K", "MODE-PAIR", "NO-BACKTRACK", "HELPER-PROV", "ENTRY", "ENTRY-SIB", "CTOR-INV"],
    "C07": ["K", "SPAN-PROV", "SPAN-EMPTY", "SPAN-IMPL", "READER-SIB", "INPUT-MISC", "GRAMMAR", "HELPER-PROV", "CTOR-INV"],
    "C10": ["READER-SIB", "SPAN-PROV", "SPAN-EMPTY", "SPAN-IMPL", "STREAM", "INPUT-MISC", "CHAR-SIB", "CHAR-PROV", "GRAMMAR", "HELPER-PROV"],
    "C06": ["D:ALT-LINEAR", "D:ALT-POS", "D:PFAIL", "ORDER-ARMS", "ERR-SPAN", "MERGE-ARMS", "ENTRY", "K", "READER-SIB", "SPAN-PROV", "SPAN-EMPTY", "SPAN-IMPL", "MODE-PAIR", "ERR-PROV", "HELPER-PROV", "CTOR-INV"],
    "C08": ["K", "D:POISON", "D:ALT-LINEAR", "D:PFAIL", "MODE-PURE", "SUB-INPUT", "GRAMMAR", "D:KEEP*", "D:LIFO*", "HOOKS-SAVE-REWIND", "MODE-PAIR", "NO-BACKTRACK", "ENTRY", "ENTRY-SIB", "D:ALT-POS*", "ORDER-ARMS", "ERR-SPAN"],
    "C09": ["K", "D:POISON", "RECURSE", "AFFINE", "GRAMMAR", "MODE-PAIR"],
    "C11": ["K", "D:ALT-LINEAR", "D:ALT-POS", "D:PFAIL", "MEMO-KEY", "MEMO-WRITERS", "GRAMMAR", "MODE-PAIR", "NO-BACKTRACK", "SUB-INPUT", "ERR-PROV", "PANIC-INV", "STATICS", "ORDER-ARMS", "MERGE-ARMS", "ERR-SPAN"],
    "C12": ["RECURSE", "ONCE", "CLONE-FIELDS", "K", "GRAMMAR", "MODE-PAIR", "HELPER-PROV", "OVERRIDE-INV", "PANIC-INV"],
    "C13": ["FREEZE", "STATICS", "OWN-STATE", "CLONE-FIELDS", "MODE-PAIR", "K", "NO-BACKTRACK", "HELPER-PROV", "OVERRIDE-INV", "CTOR-INV"],
    "C14": ["CHAR-SIB", "CHAR-PROV", "REGEX-ANCHOR", "K", "HOOKS-TOKEN", "SEQ-PROV", "MODE-PURE", "GRAMMAR", "HELPER-PROV", "BUILDER-PROV", "CLONE-FIELDS", "ENTRY", "ENTRY-SIB"],
    "C15": ["K", "SUB-INPUT", "MODE-PAIR", "BUILDER-PROV", "GRAMMAR", "HELPER-PROV"],
    "C16": ["K", "SUB-INPUT", "D:ALT-LINEAR", "D:PFAIL", "SPAN-PROV", "SPAN-EMPTY", "SPAN-IMPL", "READER-SIB", "GRAMMAR", "MODE-PAIR", "D:POISON*", "D:KEEP*", "D:LIFO*", "MODE-PURE", "ORDER-ARMS", "ERR-SPAN", "D:ALT-POS*", "MACRO-EXPAND"],
    "C17": ["K", "D:ALT-LINEAR", "D:ALT-POS", "ERR-SPAN", "MODE-PAIR", "GRAMMAR", "ERR-PROV", "NO-BACKTRACK", "HELPER-PROV", "ORDER-ARMS", "MERGE-ARMS"],
    "C18": ["HOOKS-WRITERS", "HOOKS-TOKEN", "HOOKS-SAVE-REWIND", "SUB-INPUT", "D:POISON", "D:KEEP", "K", "GRAMMAR", "MODE-PAIR", "NO-BACKTRACK", "HELPER-PROV", "CTOR-INV"],
    "C19": ["UNSAFE-INV", "MAYBEUNINIT", "CONTAINER-PROV", "HELPER-PROV"],
    "C20": ["D:PFAIL", "RECURSE", "INPUT-MISC", "NONCONSUMPTION-FWD", "MODE-PAIR", "K", "REGEX-ANCHOR", "HELPER-PROV", "READER-SIB", "ALLOC-INV", "PANIC-INV"],
}

# properties whose typestate disciplines are restricted to the bodies of their own contract groups
# (the crate-wide properties C04 C05 C06 C18 C20 look at every body)
SCOPED = {"C01", "C02", "C08", "C09", "C11", "C15", "C16", "C17"}


def eval_rules(names, config="all", pid=None):
    facts = factsmod.load(config)
    res = []
    # "D:X" = discipline X on the property's own bodies (SCOPED properties) or crate-wide; "D:X*" = always crate-wide
    disc_scoped = [n[2:] for n in names if n.startswith("D:") and not n.endswith("*")]
    disc_wide = [n[2:-1] for n in names if n.startswith("D:") and n.endswith("*")]
    if disc_scoped or disc_wide:
        run = RP.get_run(config)
        pred = None
        if pid in SCOPED:
            own = set(RC.bodies_for(run, pid))
            import re as _re
            pred = lambda u, own=own: _re.sub(r"(::\{closure#\d+\})+", "", u) in own
        if disc_scoped:
            res.extend(RP.discipline(run, disc_scoped, pred))
        if disc_wide:
            res.extend(RP.discipline(run, disc_wide, None if pid in SCOPED else pred))
    for n in names:
        if n.startswith("D:"):
            continue
        if n == "K":
            res.append(RC.rule_contracts(pid, config))
            continue
        if n == "GRAMMAR":
            res.append(RG.rule_grammar_for(pid)(facts) if pid else RG.rule_grammar(facts))
            continue
        if n == "HELPER-PROV":
            res.append(RHP.rule_helper_prov_for(pid)(facts))
            continue
        if n == "RECURSE":
            res.append(RS.rule_recurse(facts, has_stacker="stacker" in facts.features))
        else:
            res.append(STRUCT[n](facts))
    # keep declared order
    order = {(n[2:].rstrip("*") if n.startswith("D:") else ("CONTRACT" if n == "K" else n)): i for i, n in enumerate(names)}
    res.sort(key=lambda r: order.get(r.rule, 99))
    return res


def make_prop(pid):
    def run(tier):
        # quick tier: every stable feature switched on, and the default feature set (code under `cfg(not(feature = ..))`, e.g. the
        # non-memoization layout of InputRef, exists only there); the two extractions run concurrently and are cached
        import thorough
        thorough.prefetch(["all", "default"])
        results = eval_rules(PROP_RULES[pid], "all", pid)
        results.extend(thorough.on_config(pid, PROP_RULES[pid], "default"))
        if tier == "thorough":
            import report
            known = report.load_known()[0].get(pid, {})
            clean = not any(v.key not in known for r in results for v in r.violations) and not any(r.errors for r in results)
            results.extend(thorough.extra(pid, PROP_RULES[pid], base_clean=clean))
        return results
    return run


PROPS = {pid: make_prop(pid) for pid in PROP_RULES}


def run_all_rules(config="all"):
    """Used by tools/gen_floors.py: evaluate every rule once on `config`."""
    names = []
    for rs in PROP_RULES.values():
        for n in rs:
            if n not in names and n not in ("K", "GRAMMAR", "HELPER-PROV"):
                names.append(n)
    res = eval_rules(names, config)
    for pid in PROP_RULES:
        if "K" in PROP_RULES[pid]:
            res.append(RC.rule_contracts(pid, config))
        if "GRAMMAR" in PROP_RULES[pid]:
            res.append(RG.rule_grammar_for(pid)(factsmod.load(config)))
    res.append(RC.rule_contracts(None, config))
    for pid in PROP_RULES:
        if "HELPER-PROV" in PROP_RULES[pid]:
            res.append(RHP.rule_helper_prov_for(pid)(factsmod.load(config)))
    return res

"""Combinator automata: comparison of the abstract automaton computed from MIR with the contract
automaton written from the PEG reading of each combinator (spec/contracts/*.txt).

An automaton edge:   SRC RESULT [guards] -> DST @POS {effects}
  SRC     ENTRY | <child>.<fn>:<Mode> | read | user:<name> | skip_while ...
  RESULT  Ok | Err | Ok(Some) | Ok(None) | Some | None | done       (absent for ENTRY)
  guards  conjunction of normalised atoms:  a<b  !(a<b)  a==b  !(a==b)  flag  !flag  x is Some ...
  DST     a node as above, or EXIT <class>
  POS     where the cursor is when DST is reached: E (entry position) | before (position before SRC was
          attempted, i.e. SRC's consumption undone) | after(<child>) | read | any (unspecified: Err exits)
  effects multiset of: emit | alt (a primary error recorded) | write <place>:=<term> | memo <op>

Conformance (both directions):
  soundness  every edge computed from the code is an instance of a contract edge with the same SRC/RESULT/DST
             and effects, whose guards all hold on the code path (the path may know more) and whose POS is
             one of the descriptions that apply to the computed cursor tag;
  coverage   every contract edge is realised by at least one computed edge.
"""
import os
import re

from interp import repr_term

VERIF = os.path.dirname(os.path.dirname(os.path.abspath(__file__)))
SPEC_DIR = os.path.join(VERIF, "spec", "contracts")


# ------------------------------------------------------------------ normalisation of computed edges

def is_zero(t):
    return isinstance(t, tuple) and t[0] == "const" and re.match(r"^0(_[ui]\w+)?$", str(t[1])) is not None


def atom(term, pol):
    """Canonical (string, polarity) of a guard fact."""
    t = term
    if isinstance(t, tuple) and t and t[0] == "discr":
        return ("%s is %s" % (rt(t[1]), pol), True)
    if isinstance(t, tuple) and t and t[0] == "Lt":
        a, b = t[1], t[2]
        if is_zero(a):          # 0 < x   ==  !(x == 0)   (unsigned)
            return ("%s==0" % rt(b), not pol)
        return ("%s<%s" % (rt(a), rt(b)), pol)
    if isinstance(t, tuple) and t and t[0] == "Eq":
        a, b = t[1], t[2]
        if is_zero(a):
            return ("%s==0" % rt(b), pol)
        if is_zero(b):
            return ("%s==0" % rt(a), pol)
        x, y = sorted([rt(a), rt(b)])
        return ("%s==%s" % (x, y), pol)
    return (rt(t), pol)


def rt(t):
    s = repr_term(t)
    s = s.replace("(*", "").replace(" ", "")
    s = re.sub(r"\(((?:'[\w.]+',)+)\d+\)", lambda m: ".".join(x.strip("'") for x in m.group(1).split(",") if x), s)  # ('a','b',line) -> a.b
    return s


def relevant(a):
    """Guard atoms that can matter for a contract: they mention the parser's configuration (self.*), an
    argument/iterator state (argN), a configuration value, a user predicate or an error position.  Pure
    constant comparisons and cursor==cursor tests come from debug assertions (loop-progress checks)."""
    s = a[0]
    if re.search(r"cursor\([SETXPW]", s) and "loc(" not in s:
        return False
    return bool(re.search(r"self\b|arg\d|usercall|loc\(|altpos|secondary_since|is_empty|size_of|peek|memo|elem\(|[A-Za-z_]\w*\(|fn<", s))


def norm_facts(facts):
    out = set()
    for (t, p) in facts:
        a = atom(t, p)
        if relevant(a):
            out.add(a)
    return frozenset(out)


def saturate(facts):
    """Order-theoretic consequences of the comparison facts of one code path (the compared quantities are unsigned
    integers: a total order).  Used for the soundness direction only: a contract guard `!(a==b)` holds on a path that
    established `a<b`; `b<a` holds on a path that established `!(a<b)` and `!(a==b)` (e.g. a `match a.cmp(&b)` arm)."""
    fs = set(facts)
    changed = True
    while changed:
        changed = False
        new = set()
        for (t, p) in fs:
            if not (isinstance(t, tuple) and t and t[0] in ("Lt", "Eq") and len(t) == 3):
                continue
            a, b = t[1], t[2]
            x, y = sorted([a, b], key=repr)
            eq = ("Eq", x, y)
            if t[0] == "Lt" and p:
                new |= {(("Lt", b, a), False), (eq, False)}
            elif t[0] == "Eq" and p:
                new |= {(("Lt", a, b), False), (("Lt", b, a), False)}
            elif t[0] == "Lt" and not p:
                if (eq, False) in fs:
                    new.add((("Lt", b, a), True))
                if (("Lt", b, a), False) in fs:
                    new.add((eq, True))
        if not new <= fs:
            fs |= new
            changed = True
    return frozenset(fs)


def norm_effects(seg):
    out = []
    for e in seg:
        k = e[0]
        if k == "emit":
            out.append("emit at=%s" % e[1])
        elif k == "add_alt":
            out.append("alt found=%s span=%s at=%s" % (e[1], e[2], e[3]))
        elif k == "add_alt_err":
            out.append("alt_err at=%s err=%s" % (e[1], e[2]))
        elif k == "memwrite":
            out.append("write %s:=%s" % (e[1].replace(" ", ""), e[2].replace(" ", "")))
        elif k == "memo":
            out.append("memo %s" % e[1])
        elif k == "rewind_input":
            out.append("reposition")
        elif k == "cap":
            out.append("%s %s..%s" % (e[1], e[2], e[3]))
        elif k == "stash":
            out.append("stash cursor@%s" % e[2])
        elif k == "order":
            out.append("folds with %s" % e[1])
        elif k == "uarg":
            out.append("passes %s" % e[1].replace(" ", ""))
        elif k == "oparg":
            out.append("%s@%s" % (e[1], e[2]))
    out = [re.sub(r"\('([^']+)',\s*'([^']+)',\s*\d+\)", r"\1.\2", x) for x in out]
    return tuple(sorted(set(out)))


def node_name(n):
    if n == "ENTRY":
        return "ENTRY"
    if isinstance(n, tuple):
        if n[0] == "EXIT":
            return "EXIT " + n[1]
        if n[0] == "NODE":
            return n[1].replace(" ", "")
    return str(n).replace(" ", "")


class Edge:
    __slots__ = ("src", "res", "dst", "pos", "effects", "facts", "line", "facts_sat")

    def key(self):
        return (self.src, self.res, self.dst, self.effects)

    def fmt(self, guards=None):
        g = guards if guards is not None else sorted(self.facts)
        gs = " [%s]" % ", ".join(("" if p else "!") + ("(%s)" % a if not p and ("<" in a or "==" in a or " " in a) else a) for a, p in g) if g else ""
        pos = self.pos if isinstance(self.pos, str) else "|".join(sorted(self.pos))
        ef = " {%s}" % "; ".join(self.effects) if self.effects else ""
        return "%s%s%s -> %s @%s%s" % (self.src, " " + self.res if self.res else "", gs, self.dst, pos, ef)


def site_ordinals(raw):
    """Node names carry their call-site line (`name@line`).  Replace the line by an ordinal (#2, #3 ...) in
    source order when the same (child, fn, mode) is called at several sites; drop it otherwise."""
    sites = {}
    for (node, res, dst, descs, seg, facts) in raw:
        for n in (node_name(node), node_name(dst)):
            if "@" in n and not n.startswith("EXIT"):
                base, line = n.rsplit("@", 1)
                try:
                    sites.setdefault(base, set()).add(int(line))
                except ValueError:
                    pass
    ren = {}
    for base, lines in sites.items():
        ls = sorted(lines)
        for i, l in enumerate(ls):
            ren["%s@%s" % (base, l)] = base if i == 0 else "%s#%d" % (base, i + 1)
    return ren


def computed_edges(raw):
    """raw: set of (node, res, dst, descs, seg, facts) from the interpreter."""
    out = []
    seen = set()
    ren = site_ordinals(raw)
    for (node, res, dst, descs, seg, facts) in raw:
        e = Edge()
        e.src = ren.get(node_name(node), node_name(node))
        e.res = res
        e.dst = ren.get(node_name(dst), node_name(dst))
        e.pos = frozenset(d.replace(" ", "") for d in descs)
        e.effects = norm_effects(seg)
        e.facts = norm_facts(facts)
        e.facts_sat = norm_facts(saturate(facts))
        e.line = None
        k = (e.src, e.res, e.dst, e.pos, e.effects, e.facts)
        if k in seen:
            continue
        seen.add(k)
        out.append(e)
    return out


# ------------------------------------------------------------------ contract files

EDGE_RE = re.compile(r"^(?P<src>\S+?)(?:\s+(?P<res>Ok\(Some\)|Ok\(None\)|Ok|Err|Some|None|done))?\s*(?:\[(?P<g>[^\]]*)\])?\s*->\s*"
                     r"(?P<dst>EXIT\s+\S+|\S+)\s*@(?P<pos>[^\s{]+)\s*(?:\{(?P<ef>[^}]*)\})?\s*$")


def parse_guard(g):
    g = g.strip()
    pol = True
    if g.startswith("!"):
        pol = False
        g = g[1:].strip()
        if g.startswith("(") and g.endswith(")"):
            g = g[1:-1]
    return (g.replace(" ", "") if " is " not in g else g, pol)


def parse_contracts(text, name="<text>"):
    """Returns {body uname: [Edge]}; raises ValueError on syntax errors."""
    res = {}
    cur = None
    for ln, line in enumerate(text.split("\n"), 1):
        line = line.rstrip()
        if not line.strip() or line.strip().startswith("#"):
            continue
        line = re.sub(r"\s+#\s.*$", "", line)      # trailing comment: whitespace, '#', whitespace
        if not line.startswith(" "):
            cur = line.strip().rstrip(":")
            res.setdefault(cur, [])
            continue
        m = EDGE_RE.match(line.strip())
        if not m or cur is None:
            raise ValueError("%s:%d: cannot parse contract edge: %r" % (name, ln, line))
        e = Edge()
        e.src = m.group("src")
        e.res = m.group("res")
        e.dst = re.sub(r"\s+", " ", m.group("dst"))
        e.pos = m.group("pos")
        e.effects = tuple(sorted(x.strip().replace(" ", "") if x.strip().startswith("write") is False else
                                 "write " + x.strip()[5:].strip().replace(" ", "")
                                 for x in (m.group("ef") or "").split(";") if x.strip()))
        gs = [parse_guard(x) for x in split_guards(m.group("g") or "") if x.strip()]
        e.facts = frozenset(gs)
        e.line = ln
        res[cur].append(e)
    return res


def split_guards(s):
    out, depth, cur = [], 0, ""
    for ch in s:
        if ch in "([":
            depth += 1
        if ch in ")]":
            depth -= 1
        if ch == "," and depth == 0:
            out.append(cur)
            cur = ""
        else:
            cur += ch
    if cur.strip():
        out.append(cur)
    return out


def norm_effect_str(x):
    return x.replace(" ", "")


_READ_ONLY_EFFECT = re.compile(r"^(memoentry|memoget|writememo_get\(\)\.:=.*)$")


def observable(effects):
    """Effects that change something: looking a key up in the memo table (through the entry API or through get) is not one."""
    return {e for e in effects if not _READ_ONLY_EFFECT.match(e)}


def canon_memo_facts(facts):
    """`memos.entry(key)` -> Occupied(o) / Vacant with `o.get()` and `memos.get(&key)` -> Some(stored) / None are two spellings of the
    same look-up; facts are compared in the entry spelling:  get() is None == entry is Vacant;  get() is Some == entry is Occupied and
    the stored Option is what the contract calls memo_get()."""
    if any(a.startswith("memo_entry()") for a, _ in facts) or not any(a.startswith(("memo_get()", "(memo_get()asSome)")) for a, _ in facts):
        return facts
    out = set()
    for a, p_ in facts:
        if a == "memo_get() is None":
            out.add(("memo_entry() is Vacant", p_))
        elif a == "memo_get() is Some":
            out.add(("memo_entry() is Occupied", p_))
        elif a.startswith("(memo_get()asSome).0 is "):
            out.add(("memo_get() is " + a[len("(memo_get()asSome).0 is "):], p_))
        else:
            out.add((a.replace("((memo_get()asSome).0asSome).0", "(memo_get()asSome).0"), p_))
    return frozenset(out)


def load_all():
    res = {}
    if not os.path.isdir(SPEC_DIR):
        return res
    for fn in sorted(os.listdir(SPEC_DIR)):
        if fn.endswith(".txt"):
            with open(os.path.join(SPEC_DIR, fn)) as fh:
                for k, v in parse_contracts(fh.read(), fn).items():
                    res[k] = v
    return res


# ------------------------------------------------------------------ comparison

def pos_ok(spec_pos, applicable, dst):
    if spec_pos == "any":
        return True
    return spec_pos in applicable


def _find_unwrap_or(atom):
    """(start, end, X, Y) of the first `unwrap_or(X,Y)` term in atom (balanced parentheses), or None."""
    i = atom.find("unwrap_or(")
    if i < 0:
        return None
    j = i + len("unwrap_or(")
    depth = 0
    comma = None
    k = j
    while k < len(atom):
        c = atom[k]
        if c in "([{":
            depth += 1
        elif c in ")]}":
            if depth == 0:
                break
            depth -= 1
        elif c == "," and depth == 0 and comma is None:
            comma = k
        k += 1
    if comma is None or k >= len(atom):
        return None
    return i, k + 1, atom[j:comma].strip(), atom[comma + 1:k].strip()


def _established_by_split(atom, pol, cfacts):
    """A contract guard over `unwrap_or(X, Y)` (a configured value falling back to the static one) is established by a code path
    that tested X itself: the same guard over Y under the fact `X is None`, or over X's payload under `X is Some`."""
    u = _find_unwrap_or(atom)
    if u is None:
        return False
    i, j, X, Y = u
    none_known = ("%s is None" % X, True) in cfacts or ("%s is Some" % X, False) in cfacts
    some_known = ("%s is Some" % X, True) in cfacts or ("%s is None" % X, False) in cfacts
    if none_known:
        a2 = atom[:i] + Y + atom[j:]
        if (a2, pol) in cfacts or _established_by_split(a2, pol, cfacts):
            return True
    if some_known:
        for payload in ("(%sasSome).0" % X, "(%s as Some).0" % X, X + ".0", "unwrap(%s)" % X, X):
            a2 = atom[:i] + payload + atom[j:]
            if (a2, pol) in cfacts or _established_by_split(a2, pol, cfacts):
                return True
    return False


_ELEM_ENUM = re.compile(r"elem\(([^()]*(?:\([^()]*\))*[^()]*)\)\.1(?![0-9])")
_INDEXED = re.compile(r"([A-Za-z_][\w.]*)\.\[\]")


_WHOLE_SLICE = re.compile(r"\b(?:index|index_mut)\(([^(),]+),_\)|\b(?:as_slice|as_mut_slice)\(([^()]+)\)")


def canon_elem(txt):
    txt = _canon_elem(txt)
    if isinstance(txt, str) and ".0.pointer" in txt:
        txt = txt.replace(".0.pointer", "")          # `**boxed` spelled through Box's internals: the pointee is the box

    if isinstance(txt, str) and ("index(" in txt or "as_slice(" in txt or "as_mut_slice(" in txt or "index_mut(" in txt):
        # the whole sequence as a slice: `&xs[..]` / `xs.as_slice()` / xs
        txt = _WHOLE_SLICE.sub(lambda m: m.group(1) or m.group(2), txt)
    return txt


def _canon_elem(txt):
    """`some element of the sequence X`: reached by iterating (`elem(X)`), by iterating with `enumerate()` (`elem(X).1`) or by
    indexing with the loop counter (`X.[]`) - one spelling."""
    if not isinstance(txt, str) or ("elem(" not in txt and ".[]" not in txt):
        return txt
    txt = _ELEM_ENUM.sub(lambda m: "elem(%s)" % m.group(1), txt)
    txt = _INDEXED.sub(lambda m: "elem(%s)" % m.group(1), txt)
    return txt


def canon_edge(e):
    e2 = Edge()
    e2.src, e2.res, e2.dst = canon_elem(e.src), e.res, canon_elem(e.dst)
    e2.pos = canon_elem(e.pos) if isinstance(e.pos, str) else frozenset(canon_elem(x) for x in e.pos)
    e2.effects = tuple(canon_elem(x) for x in e.effects)
    e2.facts = frozenset((canon_elem(a), p_) for a, p_ in e.facts)
    e2.line = getattr(e, "line", None)
    fs = getattr(e, "facts_sat", None)
    e2.facts_sat = frozenset((canon_elem(a), p_) for a, p_ in fs) if fs else fs
    return e2


def conforms(spec_edges, comp_edges):
    """Returns (problems, n_obligations).  problems: list of (kind, text)."""
    spec_edges = [canon_edge(e) for e in spec_edges]
    comp_edges = [canon_edge(e) for e in comp_edges]
    problems = []
    matched = set()
    n = 0
    for ce in comp_edges:
        n += 1
        cands = [se for se in spec_edges if se.src == ce.src and se.res == ce.res and se.dst == ce.dst]
        ok = False
        why = []
        for se in cands:
            cfacts = canon_memo_facts(getattr(ce, "facts_sat", None) or ce.facts)
            if not se.facts <= cfacts and all(_established_by_split(a, p, cfacts) for a, p in (se.facts - cfacts)):
                pass
            elif not se.facts <= cfacts:
                # a guard the contract demands is absent or has the opposite polarity on the code path
                miss = sorted(se.facts - cfacts)
                why.append("guard %s not established" % ", ".join(("" if p else "!") + a for a, p in miss))
                continue
            if not pos_ok(se.pos, ce.pos, ce.dst):
                why.append("cursor is at {%s}, contract says %s" % (",".join(sorted(ce.pos)), se.pos))
                continue
            req = observable({norm_effect_str(x) for x in se.effects if not x.endswith("?")})
            opt = observable({norm_effect_str(x[:-1]) for x in se.effects if x.endswith("?")})
            got = observable({norm_effect_str(x) for x in ce.effects})
            if not (req <= got <= (req | opt)):
                why.append("effects {%s} differ from contract {%s}" % ("; ".join(ce.effects), "; ".join(se.effects)))
                continue
            ok = True
            matched.add(id(se))
        if not ok:
            if not cands:
                why = ["the contract has no transition %s%s -> %s" % (ce.src, " " + ce.res if ce.res else "", ce.dst)]
            problems.append(("unexpected", ce, "; ".join(dict.fromkeys(why))))
    for se in spec_edges:
        n += 1
        if id(se) not in matched:
            problems.append(("missing", se, "no code path realises this contract transition"))
    return problems, n


def dump(comp_edges):
    """Contract text for a set of computed edges (facts reduced to those that vary among siblings;
    edges that differ only in the applicable cursor descriptions are merged: intersection)."""
    lines = []
    groups = {}
    for e in comp_edges:
        groups.setdefault((e.src, e.res), []).append(e)
    order = sorted(groups, key=lambda k: (k[0] != "ENTRY", k[0], str(k[1])))
    for k in order:
        es = groups[k]
        common = None
        for e in es:
            common = e.facts if common is None else (common & e.facts)
        merged = {}
        for e in es:
            g = tuple(sorted(e.facts - common)) if len(es) > 1 else ()
            kk = (e.dst, g, e.effects)
            merged[kk] = (merged[kk] & e.pos) if kk in merged else e.pos
        for (dst, g, ef), pos in sorted(merged.items(), key=lambda kv: (kv[0][0], kv[0][1])):
            e = Edge()
            e.src, e.res, e.dst, e.effects, e.facts = k[0], k[1], dst, ef, frozenset(g)
            pref = [d for d in ("before", "E", "pre_op", "pre_expr") if d in pos] or sorted(pos)
            e.pos = pref[0] if pref else "any"
            if dst == "EXIT Err":
                # F1 bodies may leave the input anywhere on Err; Pratt operators must have restored it
                op = [d for d in ("pre_op", "pre_expr") if d in pos]
                e.pos = op[0] if op else "any"
            lines.append("  " + e.fmt(list(g)))
    return "\n".join(dict.fromkeys(lines))

"""Structural / type-level rules: FREEZE, STATICS, RECURSE, MODE-PAIR, MODE-PURE, UNSAFE-INV, OWN-STATE.

Every rule reads the facts of /repo's current tree, counts its instances and fails closed
(CHECKER-ERROR) when a count drops below the floor confirmed by hand.
"""
import re

import mirq
from mirq import calls, callee_of, callee_path, is_call_to, Prov, fmt_roots
from report import RuleResult, V
import floors

PARSER_TRAITS = {"Parser", "IterParser", "ConfigParser", "ConfigIterParser", "recovery::Strategy", "pratt::Operator"}


def loc(b, line=None):
    return b["file"], (line if line is not None else b["line"])


# ====================================================================== FREEZE / STATICS

FREEZE_EXCEPTIONS = {
    # ADT path: (fields through which interior mutability may be reached, reason)
    "recursive::OnceCell": ({"0"}, "write-once cell of Recursive::declare/define (its writer discipline is rule ONCE)"),
    "recursive::Indirect": ({"inner"}, "holds the OnceCell above (write-once at definition time, before any parse)"),
    "regex::Regex": ({"regex"}, "regex_automata::meta::Regex keeps an internal scratch-cache pool (third-party, not observable in results)"),
}


FREEZE_EXCEPTION_TYPES = {
    "regex::Regex": ("regex_automata::meta::Regex",),
    "recursive::Indirect": ("recursive::OnceCell<",),
}


def _freeze_excused(p, a):
    """Interior mutability of ADT `p` is excused only when every path to an UnsafeCell starts at a reviewed field."""
    exc = FREEZE_EXCEPTIONS.get(p)
    if exc is None:
        return False, a["interior_mut"][0].strip()
    types = FREEZE_EXCEPTION_TYPES.get(p, ())
    for path in a["interior_mut"]:
        m = re.match(r"^\s*\.(\w+):(\S+)", path)
        # the reviewed field, by name - or, if it was renamed, by its (reviewed) type
        if not m or not (m.group(1) in exc[0] or any(m.group(2).startswith(t) for t in types)):
            return False, path.strip()
    return True, None


def rule_freeze(facts):
    r = RuleResult("FREEZE")
    adts = set()
    nonadt = 0
    for im in facts.impls:
        if im.get("trait") in PARSER_TRAITS:
            if "self_adt" in im:
                adts.add(im["self_adt"])
            else:
                nonadt += 1
    # helper ADTs that parsers are built from / handed out by
    for extra in ("cache::Cache", "pratt::Boxed", "Boxed", "recursive::RecursiveInner", "combinator::RepeatedCfg",
                  "combinator::SeparatedByCfg", "primitive::JustCfg"):
        if extra in facts.adts:
            adts.add(extra)
    used_exc = []
    for p in sorted(adts):
        a = facts.adts.get(p)
        if a is None:
            continue  # foreign ADT (Box, Rc, Arc, Either)
        ok = not a["interior_mut"]
        bad = a["interior_mut"][0].strip() if a["interior_mut"] else None
        if not ok:
            ok, bad = _freeze_excused(p, a)
            if ok:
                used_exc.append(p)
        r.ob(ok)
        if not ok:
            r.violations.append(V("FREEZE", p, "interior mutability",
                                  "parser type %s contains interior mutability (%s): a parse could write to the parser value"
                                  % (p, bad[:200]), a["file"], a["line"]))
    # any *other* local ADT with interior mutability must be on the exception list too
    for p, a in sorted(facts.adts.items()):
        if a["interior_mut"] and p not in adts:
            ok, bad = _freeze_excused(p, a)
            if ok:
                used_exc.append(p)
            r.ob(ok)
            if not ok:
                r.violations.append(V("FREEZE", p, "interior mutability (helper type)",
                                      "type %s contains interior mutability (%s)" % (p, bad[:200]),
                                      a["file"], a["line"]))
    r.explanation = ("every local ADT implementing Parser/IterParser/ConfigParser/Strategy/Operator (%d ADTs; %d impls on "
                     "foreign/non-ADT self types are forwarding impls) is free of UnsafeCell modulo its type parameters "
                     "(deep scan through fields and generic arguments); named exceptions: %s"
                     % (len(adts), nonadt, ", ".join(sorted(set(used_exc)))))
    r.nontrivial = len(adts)
    r.info = {"parser_adts": len(adts), "exceptions_used": sorted(set(used_exc))}
    r.samples = [{"adt": p, "interior_mut": facts.adts[p]["interior_mut"][:1]} for p in sorted(adts) if p in facts.adts][:3]
    r.require_floor(len(adts), facts, "FREEZE.parser_adts", "parser ADTs inspected")
    return r


def rule_statics(facts):
    r = RuleResult("STATICS")
    for s in facts.statics:
        bad = s["mutable"] or s["thread_local"] or s["interior_mut"]
        r.ob(not bad)
        if bad:
            r.violations.append(V("STATICS", s["path"], "global mutable state",
                                  "static %s: mutable=%s thread_local=%s interior_mut=%s — state that outlives a parse"
                                  % (s["path"], s["mutable"], s["thread_local"], bool(s["interior_mut"]))))
    # thread_local!/lazy statics/atomics reached through calls
    hits = 0
    for b in facts.bodies:
        for _, bl, st in mirq.assigns(b):
            if st["rv"]["k"] == "tlref":
                hits += 1
                r.ob(False)
                r.violations.append(V("STATICS", b["uname"], "thread-local access",
                                      "thread-local %s accessed" % st["rv"].get("def"), b["file"], st.get("line")))
        for _, bl, t, f in calls(b):
            p = callee_path(f) if f else ""
            if "LocalKey" in p or "sync::atomic" in p or "OnceLock" in p or "LazyLock" in p or "lazy::" in p:
                hits += 1
                r.ob(False)
                r.violations.append(V("STATICS", b["uname"], "global/atomic state via %s" % p.split("::")[-1],
                                      "call to %s" % p, b["file"], bl["line"]))
    r.ob(True)
    r.explanation = ("no `static mut`, thread-local, interior-mutable static, atomic or lazy global anywhere in the crate "
                     "(%d statics, %d bodies scanned for thread-local/atomic accesses)" % (len(facts.statics), len(facts.bodies)))
    r.nontrivial = 1
    r.info = {"statics": len(facts.statics), "bodies_scanned": len(facts.bodies)}
    r.samples = [{"statics": [s["path"] for s in facts.statics], "bodies_scanned": len(facts.bodies)}]
    return r


def rule_own_state(facts):
    """All per-parse state lives in an InputOwn constructed inside each top-level entry point."""
    r = RuleResult("OWN-STATE")
    entries = [b for b in facts.bodies if b["qname"] in ("Parser::parse_with_state", "Parser::check_with_state")]
    ctor_callers = {}
    for b in facts.bodies:
        for _, bl, t, f in calls(b):
            if f and f["path"].startswith("input::InputOwn") and f["name"] in ("new", "new_state"):
                ctor_callers.setdefault(b["uname"], []).append((f["name"], bl["line"]))
    for b in entries:
        names = [n for n, _ in ctor_callers.get(b["uname"], [])]
        ok = names.count("new_state") == 1
        consumed = any(f and f["path"].startswith("input::InputOwn") and f["name"] == "into_errs" for _, _, _, f in calls(b))
        as_ref = sum(1 for _, _, _, f in calls(b) if f and f["path"].startswith("input::InputOwn") and f["name"] == "as_ref_start")
        r.ob(ok and consumed and as_ref == 1)
        if not (ok and consumed and as_ref == 1):
            r.violations.append(V("OWN-STATE", b["uname"], "fresh InputOwn per parse",
                                  "entry point must construct exactly one fresh InputOwn (new_state), borrow it once "
                                  "(as_ref_start) and consume it (into_errs); found ctor=%s as_ref_start=%d into_errs=%s"
                                  % (names, as_ref, consumed), *loc(b)))
    # InputOwn is constructed nowhere else outside tests/iter helpers
    allowed = {"Parser::parse_with_state", "Parser::check_with_state", "Parser::parse_iter", "IterParser::parse_iter",
               "extension::current::tests"}
    for u, l in sorted(ctor_callers.items()):
        b = facts.by_uname[u]
        ok = b["qname"] in allowed or "test" in u
        r.ob(ok)
        if not ok:
            r.violations.append(V("OWN-STATE", u, "InputOwn constructed outside an entry point",
                                  "InputOwn::%s called in %s" % (l[0][0], u), *loc(b, l[0][1])))
    # InputOwn fields: the memo table / errors / cursor are plain owned values
    own = facts.adts.get("input::InputOwn")
    r.ob(own is not None and not own["interior_mut"])
    # go / parse / check take &self
    nsig = 0
    for b in facts.bodies:
        if b.get("in_trait") in ("Parser", "IterParser", "ConfigParser") or b.get("impl_trait") in ("Parser",):
            if b["name"] in ("go", "parse", "check", "parse_with_state", "check_with_state", "go_cfg"):
                sig = b.get("sig", "")
                ok = sig.startswith("fn(&") or "fn(&'" in sig[:12] or re.match(r"for<[^>]*> fn\(&", sig) is not None
                nsig += 1
                r.ob(ok)
                if not ok:
                    r.violations.append(V("OWN-STATE", b["uname"], "receiver is not &self", "signature %s" % sig, *loc(b)))
    r.explanation = ("parse_with_state/check_with_state each build one fresh InputOwn (cursor, error lists, memo table, state "
                     "borrow), lend it out once and consume it before returning; InputOwn is constructed nowhere else "
                     "(%d constructor call sites); %d parser entry signatures take &self" % (len(ctor_callers), nsig))
    r.nontrivial = len(entries) + len(ctor_callers)
    r.info = {"entries": [b["uname"] for b in entries], "ctor_callers": sorted(ctor_callers)}
    r.samples = [{"entry": b["uname"], "ctor": ctor_callers.get(b["uname"])} for b in entries]
    r.require_floor(len(entries), facts, "OWN-STATE.entries", "top-level entry bodies")
    r.require_floor(nsig, facts, "OWN-STATE.signatures", "&self signatures inspected")
    return r


# ====================================================================== RECURSE

def closure_sinks(facts, clos):
    """Callee paths the closure value `clos` is passed to in its parent body (following local moves)."""
    parent = facts.by_key.get(clos["parent_key"])
    if parent is None:
        return []
    holders = set()
    for _, bl, s in mirq.assigns(parent):
        rv = s["rv"]
        if rv["k"] == "agg" and rv.get("ak") == "closure" and rv.get("closure_key") == clos["key"]:
            if not s["place"]["p"]:
                holders.add(s["place"]["l"])
    changed = True
    while changed:
        changed = False
        for _, bl, s in mirq.assigns(parent):
            rv = s["rv"]
            src = None
            if rv["k"] == "use":
                src = mirq.operand_place(rv["op"])
            elif rv["k"] in ("ref", "copyderef"):
                src = rv["place"]
            elif rv["k"] == "cast":
                src = mirq.operand_place(rv["op"])
            if src is not None and src["l"] in holders and not s["place"]["p"] and s["place"]["l"] not in holders:
                holders.add(s["place"]["l"])
                changed = True
    sinks = []
    for _, bl, t, f in calls(parent):
        for a in t["args"]:
            pl = mirq.operand_place(a["op"])
            if pl is not None and pl["l"] in holders:
                sinks.append((callee_path(f) if f else "<indirect>", bl["line"]))
    return sinks


def enclosing_chain(facts, b):
    out = []
    cur = b
    while cur is not None and cur["kind"] == "Closure":
        out.append(cur)
        cur = facts.by_key.get(cur["parent_key"])
    return out, cur


def const_eval(rs):
    """Fold a provenance root set to an integer constant if it is one (Add/Mul/Sub of literals)."""
    rs = list(rs)
    if len(rs) != 1:
        return None
    r0 = rs[0]
    if r0[0] == "const":
        m = re.match(r"^(-?\d+)(_[iu]\w+)?$", r0[1].strip())
        return int(m.group(1)) if m else None
    if r0[0] == "field" and r0[2:] == ("0",):
        return const_eval([r0[1]])
    if r0[0] == "bin":
        a, b = const_eval(r0[2]), const_eval(r0[3])
        if a is None or b is None:
            return None
        op = r0[1].replace("WithOverflow", "").replace("Unchecked", "")
        return {"Add": a + b, "Mul": a * b, "Sub": a - b, "Shl": a << b if b < 64 else None}.get(op)
    return None


def norm_ty(t):
    return re.sub(r"'[A-Za-z_][A-Za-z0-9_]*", "'_", t or "")


def rule_recurse(facts, has_stacker=True):
    r = RuleResult("RECURSE")
    edges = []
    # (1) Recursive<..>::go: the dynamic dispatch edge
    for b in facts.bodies:
        chain, root = enclosing_chain(facts, b)
        if root is None:
            continue
        is_rec_go = root.get("impl_self_adt") == "recursive::Recursive" and root.get("impl_trait") == "Parser" and root["name"] == "go"
        is_pratt = root["qname"] == "pratt::Pratt::pratt_go"
        if not (is_rec_go or is_pratt):
            continue
        for _, bl, t, f in calls(b):
            if f is None:
                continue
            dispatch = False
            if is_rec_go and ((f.get("trait") == "private::Mode" and f["name"] in ("invoke", "invoke_cfg"))
                              or (f.get("trait") == "Parser" and f["name"] in ("go", "go_emit", "go_check"))):
                dispatch = True
            if is_pratt and f["name"] == "pratt_go":
                dispatch = True
            if not dispatch:
                continue
            # must be inside a closure handed to recursive::recurse
            guarded = False
            for c in chain:
                sinks = closure_sinks(facts, c)
                if sinks and all(p.startswith("recursive::recurse") for p, _ in sinks):
                    guarded = True
                    break
            edges.append((b["uname"], bl["line"], guarded))
            r.ob(guarded)
            if not guarded:
                r.violations.append(V("RECURSE", root["uname"], "unguarded recursion edge %s" % f["name"],
                                      "the recursive dispatch `%s` in %s is not inside a closure passed to recursive::recurse: "
                                      "native stack depth grows with input nesting without the stacker guard" % (f["name"], b["uname"]),
                                      b["file"], bl["line"]))
    # (2) recurse itself
    rb = facts.find("recursive::recurse")
    if len(rb) != 1:
        r.errors.append("anchor recursive::recurse: expected one body, found %d" % len(rb))
    else:
        rb = rb[0]
        mg = [(bl, t, f) for _, bl, t, f in calls(rb) if f and f["path"] == "stacker::maybe_grow"]
        if has_stacker:
            ok = len(mg) == 1
            detail = ""
            if ok:
                bl, t, f = mg[0]
                pv = Prov(rb)
                vals = []
                for a in t["args"][:2]:
                    vals.append(const_eval(pv.of_operand(a["op"])))
                f_arg = pv.of_operand(t["args"][2]["op"])
                passes_f = ("arg", 1) in f_arg
                ok = vals[0] is not None and vals[1] is not None and 0 < vals[0] < vals[1] and passes_f
                detail = "maybe_grow(red_zone=%s, stack_size=%s, f=%s)" % (vals[0], vals[1], fmt_roots(f_arg))
                r.samples.append({"recurse": detail})
            r.ob(ok)
            if not ok:
                r.violations.append(V("RECURSE", rb["uname"], "stack guard",
                                      "recursive::recurse must call stacker::maybe_grow(red_zone, stack_size, f) with "
                                      "0 < red_zone < stack_size and its own closure argument; found %s" % (detail or "%d calls" % len(mg)),
                                      *loc(rb)))
        else:
            r.info["stacker"] = "feature off: guard compiled out (reported, not a violation)"
        # whatever the configuration: recurse must run f exactly once on every path
    r.explanation = ("every dynamic-dispatch edge of Recursive<Indirect|Direct>::go and every self-call of Pratt::pratt_go lies inside "
                     "a closure whose only sink is recursive::recurse (%d edges); recurse calls stacker::maybe_grow(red, size, f) "
                     "with 0<red<size" % len(edges))
    r.nontrivial = len(edges)
    r.info["edges"] = ["%s line %s guarded=%s" % e for e in edges]
    r.samples += [{"edge": "%s line %s" % e[:2], "guarded": e[2]} for e in edges[:3]]
    r.require_floor(len(edges), facts, "RECURSE.edges", "recursion edges")
    return r


# ====================================================================== MODE-PAIR

# Mode method -> (what Emit must do, what Check must do)
#   'call:N'  calls (exactly once) the closure parameter number N (1-based) and nothing else
#   'none'    calls nothing
#   'fwd:X'   calls exactly the method X on its first argument
MODE_TABLE = {
    "bind": ("call:1", "none"),
    "map": ("call:2", "none"),
    "choose": ("call:2", "call:3"),
    "combine": ("call:3", "none"),
    "combine_mut": ("call:3", "none"),
    "array": ("none", "none"),
    "from_mut": ("none", "none"),
    "get_or": ("none", "call:2"),
    "invoke": ("fwd:go_emit", "fwd:go_check"),
    "invoke_cfg": ("fwd:go_emit_cfg", "fwd:go_check_cfg"),
    "invoke_pratt_op_prefix": ("fwd:do_parse_prefix_emit", "fwd:do_parse_prefix_check"),
    "invoke_pratt_op_postfix": ("fwd:do_parse_postfix_emit", "fwd:do_parse_postfix_check"),
    "invoke_pratt_op_infix": ("fwd:do_parse_infix_emit", "fwd:do_parse_infix_check"),
}


def _nontrivial_calls(b):
    out = []
    for _, bl, t, f in calls(b):
        if f is not None and f["name"] in ("deref", "borrow", "as_ref") and f["krate"] != "chumsky":
            continue
        out.append((bl, t, f))
    return out


def _check_mode_method(b, want, facts=None):
    cs = _nontrivial_calls(b)
    if want == "none":
        return len(cs) == 0, "calls %s" % [callee_path(f) if f else "<indirect>" for _, _, f in cs]
    if want.startswith("call:") and facts is not None:
        # exactly one effect: the invocation of closure parameter n - written out, or through a sibling Mode method that does
        # just that (`Emit::map(x, f)` = `Emit::bind(|| f(x))`): effects normal form (engine/nf.py) inlines the delegation
        import re as _re
        from rules_types import effects_nf
        n = int(want.split(":")[1])
        eff = effects_nf(facts, b)
        ok = len(eff) == 1 and _re.match(r"^call(_once|_mut)?\(arg%d[,)]" % n, eff[0]) is not None
        return ok, "does %s" % eff
    if want.startswith("call:"):
        n = int(want.split(":")[1])
        if len(cs) != 1:
            return False, "expected exactly one call (closure param %d), found %d" % (n, len(cs))
        bl, t, f = cs[0]
        if f is None or f.get("trait") not in ("std::ops::FnOnce", "std::ops::FnMut", "std::ops::Fn"):
            return False, "expected a closure invocation, found %s" % (callee_path(f) if f else "<indirect>")
        pv = Prov(b)
        rs = pv.of_operand(t["args"][0]["op"])
        return ("arg", n) in rs, "invokes %s" % fmt_roots(rs)
    if want.startswith("fwd:"):
        m = want.split(":")[1]
        if len(cs) != 1:
            return False, "expected exactly one forwarding call to %s, found %d calls" % (m, len(cs))
        bl, t, f = cs[0]
        if f is None or f["name"] != m:
            return False, "forwards to %s instead of %s" % (f["name"] if f else "<indirect>", m)
        pv = Prov(b)
        okargs = True
        for i, a in enumerate(t["args"]):
            rs = pv.of_operand(a["op"])
            if ("arg", i + 1) not in rs and not any(x[0] == "arg" and x[1] == i + 1 for x in rs):
                okargs = False
        return okargs, "forwards to %s with arguments in order=%s" % (m, okargs)
    return False, "?"


def rule_mode_pair(facts):
    r = RuleResult("MODE-PAIR")
    # (a) the two Mode impls
    pairs = 0
    for meth, (we, wc) in sorted(MODE_TABLE.items()):
        for mode, want in (("Emit", we), ("Check", wc)):
            bs = [b for b in facts.bodies if b.get("impl_trait") == "private::Mode" and b["name"] == meth
                  and b.get("impl_self") == "private::" + mode and b["kind"] != "Closure"]
            if len(bs) != 1:
                if meth.startswith("invoke_pratt") and "pratt" not in facts.features:
                    continue
                r.errors.append("anchor <%s as Mode>::%s: found %d bodies" % (mode, meth, len(bs)))
                continue
            ok, why = _check_mode_method(bs[0], want, facts)
            pairs += 1
            r.ob(ok)
            if not ok:
                r.violations.append(V("MODE-PAIR", bs[0]["uname"], "<%s as Mode>::%s" % (mode, meth),
                                      "<%s as Mode>::%s must %s (the two modes are erasures of one another): %s"
                                      % (mode, meth, want, why), *loc(bs[0])))
    # any Mode method not in the table?
    for b in facts.bodies:
        if b.get("impl_trait") == "private::Mode" and b["kind"] != "Closure" and b["name"] not in MODE_TABLE:
            r.ob(False)
            r.violations.append(V("MODE-PAIR", b["uname"], "unspecified Mode method",
                                  "Mode method %s has no erasure contract" % b["name"], *loc(b)))
    # (b) forwarders
    fw = 0
    FW = {"go_emit": ("go", "Emit"), "go_check": ("go", "Check"),
          "go_emit_cfg": ("go_cfg", "Emit"), "go_check_cfg": ("go_cfg", "Check")}
    for k in ("prefix", "postfix", "infix"):
        FW["do_parse_%s_emit" % k] = ("do_parse_" + k, "Emit")
        FW["do_parse_%s_check" % k] = ("do_parse_" + k, "Check")
    for b in facts.bodies:
        if b["kind"] == "Closure" or b["name"] not in FW:
            continue
        if b.get("impl_trait") not in ("Parser", "ConfigParser", "pratt::Operator") and b.get("in_trait") not in ("Parser", "ConfigParser", "pratt::Operator"):
            continue
        target, mode = FW[b["name"]]
        cs = _nontrivial_calls(b)
        fw += 1
        ok = False
        why = "calls %s" % [callee_path(f) if f else "<indirect>" for _, _, f in cs]
        if len(cs) == 1 and cs[0][2] is not None:
            bl, t, f = cs[0]
            margs = [a for a in f.get("args", []) if a in ("private::Emit", "private::Check")]
            same_self = norm_ty(f.get("self_ty")) == norm_ty(b.get("impl_self")) or f.get("self_ty") in ("Self", None) or b.get("in_trait")
            pv = Prov(b)
            a0 = pv.of_operand(t["args"][0]["op"])
            a1 = pv.of_operand(t["args"][1]["op"]) if len(t["args"]) > 1 else set()
            ok = (f["name"] == target and margs[-1:] == ["private::" + mode] and bool(same_self)
                  and any(x[:2] == ("arg", 1) for x in a0) and any(x[:2] == ("arg", 2) for x in a1))
            why = "calls %s::<%s> on %s" % (f["name"], ",".join(margs), fmt_roots(a0))
            gen = [x for x in facts.bodies if x.get("impl_path") == b.get("impl_path") and x["name"] == target and x["kind"] != "Closure"]
            gen_dispatch = None      # receiver of a `Mode::invoke*` in the generic body, if it is a pure mode dispatch
            if len(gen) == 1:
                gcs = _nontrivial_calls(gen[0])
                if len(gcs) == 1 and gcs[0][2] is not None and gcs[0][2].get("trait") == "private::Mode" and gcs[0][2]["name"].startswith("invoke"):
                    # dispatch on self <=> the parser/operator type argument of Mode::invoke* is the impl's own Self type
                    targs = [norm_ty(a) for a in gcs[0][2].get("args", [])]
                    gen_dispatch = "self" if norm_ty(b.get("impl_self")) in targs else "inner"
            if ok and gen_dispatch == "self":
                # `Self::go::<Mode>` would dispatch on self again through Mode::invoke*: unbounded mutual recursion
                ok = False
                why += " — but %s dispatches on `self` through Mode::invoke*, so this forwarder re-enters itself" % target
            inner_recv = all(x[0] == "arg" and x[1] == 1 and len(x) > 2 for x in a0) or \
                (all(x[0] == "arg" and x[1] == 1 for x in a0) and bool(a0) and f.get("self_ty") not in ("Self", None)
                 and norm_ty(f.get("self_ty")) != norm_ty(b.get("impl_self")))        # the pointee of &T / Box<T> / Rc<T>: `(**self).go_emit(inp)`
            if not ok and f["name"] == b["name"] and inner_recv \
                    and any(x[:2] == ("arg", 2) for x in a1):
                # wrapper around a stored parser/operator (e.g. pratt::Boxed): forwards the SAME mode-specific method to
                # a field of self -- legitimate only if the generic method is itself nothing but a mode dispatch
                ok = gen_dispatch is not None
                if not ok:
                    why += " — forwarding %s to a field bypasses what %s does in this combinator" % (b["name"], target)
        r.ob(ok)
        if not ok:
            r.violations.append(V("MODE-PAIR", b["uname"], "forwarder %s" % b["name"],
                                  "%s must be exactly `Self::%s::<%s>(self, inp, ..)`: %s" % (b["name"], target, mode, why), *loc(b)))
    r.explanation = ("the Emit and Check implementations of the %d Mode methods are erasures of one another (closure run in Emit only, "
                     "invoke* forward to the matching *_emit/*_check) and each of the %d go_emit/go_check/*_cfg/do_parse_*_{emit,check} "
                     "forwarders is exactly Self::go::<Emit|Check> on (self, inp)" % (len(MODE_TABLE), fw))
    r.nontrivial = pairs + fw
    r.info = {"mode_method_bodies": pairs, "forwarders": fw}
    r.samples = [{"mode_method": m, "emit": e, "check": c} for m, (e, c) in sorted(MODE_TABLE.items())[:3]]
    r.require_floor(fw, facts, "MODE-PAIR.forwarders", "forwarder bodies")
    r.require_floor(pairs, facts, "MODE-PAIR.mode_methods", "Mode method bodies")
    return r


# ====================================================================== MODE-PURE

INPUTREF_EFFECTS = {"rewind", "rewind_input", "next", "next_maybe", "next_ref", "next_inner", "next_maybe_inner",
                    "next_ref_inner", "skip", "skip_while", "skip_bytes", "emit", "add_alt", "add_alt_err", "take_alt",
                    "with_ctx", "with_state", "with_input", "parse", "check", "save"}
F1_NAMES = {"go", "go_emit", "go_check", "go_cfg", "go_emit_cfg", "go_check_cfg", "make_iter", "next", "next_cfg",
            "recover", "invoke", "invoke_cfg", "pratt_go", "do_parse_prefix", "do_parse_postfix", "do_parse_infix"}
F1_TRAITS = {"Parser", "ConfigParser", "IterParser", "ConfigIterParser", "recovery::Strategy", "pratt::Operator", "private::Mode"}


def effect_calls(b):
    """Calls in `b` that have a parse-state effect (input moved / errors written / child parser run)."""
    out = []
    for _, bl, t, f in calls(b):
        if f is None:
            continue
        sa = f.get("self_adt") or (f.get("resolved") or {}).get("self_adt")
        if sa == "input::InputRef" and not f.get("trait") and f["name"] in INPUTREF_EFFECTS:
            out.append(("InputRef::" + f["name"], bl["line"]))
        elif f.get("trait") in F1_TRAITS and f["name"] in F1_NAMES and not (f.get("trait") == "std::iter::Iterator"):
            if f.get("trait") == "private::Mode" and f["name"] not in ("invoke", "invoke_cfg"):
                continue
            out.append(("%s::%s" % (f.get("trait"), f["name"]), bl["line"]))
        elif f["name"].startswith("invoke_pratt_op") or f["name"].startswith("do_parse_"):
            out.append((f["name"], bl["line"]))
    # direct writes to errors.alt / secondary / cursor through a captured input
    for _, bl, s in mirq.assigns(b):
        fp = mirq.field_path(s["place"])
        if fp and fp[-1] in ("alt", "cursor") and "errors" in fp or (fp[-1:] == ["cursor"] and len(fp) >= 1 and "*" in mirq.place_fields(s["place"])):
            ty = mirq.local_ty(b, s["place"]["l"])
            if "InputRef" in ty or "closure" in ty:
                out.append(("write %s" % ".".join(fp), s.get("line")))
    return out


def mode_closure_args(facts, b):
    """(Mode method name, closure body, line) for every closure passed to a Mode value method in body b."""
    res = []
    holders = {}
    for _, bl, s in mirq.assigns(b):
        rv = s["rv"]
        if rv["k"] == "agg" and rv.get("ak") == "closure" and not s["place"]["p"]:
            holders[s["place"]["l"]] = rv["closure_key"]
    changed = True
    while changed:
        changed = False
        for _, bl, s in mirq.assigns(b):
            rv = s["rv"]
            src = None
            if rv["k"] == "use":
                src = mirq.operand_place(rv["op"])
            elif rv["k"] in ("ref", "copyderef"):
                src = rv["place"]
            if src is not None and src["l"] in holders and not src["p"] and not s["place"]["p"] and s["place"]["l"] not in holders:
                holders[s["place"]["l"]] = holders[src["l"]]
                changed = True
    for _, bl, t, f in calls(b):
        if f is None or f.get("trait") != "private::Mode" or f["name"] not in ("bind", "map", "combine", "combine_mut", "get_or", "choose", "array"):
            continue
        for a in t["args"]:
            pl = mirq.operand_place(a["op"])
            if pl is not None and pl["l"] in holders and not pl["p"]:
                cb = facts.by_key.get(holders[pl["l"]])
                if cb is not None:
                    res.append((f["name"], cb, bl["line"]))
    return res


def rule_mode_pure(facts):
    r = RuleResult("MODE-PURE")
    n = 0
    sites = []
    for b in facts.bodies:
        for meth, cb, line in mode_closure_args(facts, b):
            if meth == "choose":
                continue  # the two arms of `choose` ARE the parse (Ext): paired by MODE-PAIR/EXT rule
            n += 1
            bad = []
            # closure body and any closure nested in it
            for c in [cb] + mirq.closure_bodies(facts, cb):
                bad += effect_calls(c)
            sites.append((b["uname"], meth, line, bad))
            r.ob(not bad)
            if bad:
                r.violations.append(V("MODE-PURE", b["uname"], "closure given to M::%s performs %s" % (meth, bad[0][0]),
                                      "a closure passed to Mode::%s runs only in Emit mode, but it performs a parse-state effect "
                                      "(%s): check() and parse() would diverge" % (meth, ", ".join(x[0] for x in bad)),
                                      b["file"], line))
    # no body may inspect the mode type other than through Mode's methods
    insp = 0
    for b in facts.bodies:
        for _, bl, t, f in calls(b):
            if f is None:
                continue
            p = f["path"]
            if p.endswith("any::type_name") or p.endswith("TypeId::of") or p.endswith("any::type_name_of_val"):
                insp += 1
                r.ob(False)
                r.violations.append(V("MODE-PURE", b["uname"], "type inspection %s" % f["name"],
                                      "%s can distinguish Emit from Check outside the Mode interface" % p, b["file"], bl["line"]))
            if p.endswith("mem::size_of") and any("Output" in a and ("M " in a or "<M" in a) for a in f.get("args", [])):
                insp += 1
                r.ob(False)
                r.violations.append(V("MODE-PURE", b["uname"], "size_of::<M::Output<_>>",
                                      "size_of on a mode-dependent type distinguishes Emit from Check", b["file"], bl["line"]))
    r.ob(True)
    r.explanation = ("all %d closures handed to Mode::{bind,map,combine,combine_mut,get_or,array} (which run in Emit only) are "
                     "parse-state-pure: neither they nor closures nested in them call an InputRef mutator, a child parser, an operator "
                     "or write errors.alt/cursor; no body inspects the mode via type_name/TypeId/size_of" % n)
    r.nontrivial = n
    r.info = {"mode_closures": n}
    r.samples = [{"fn": s[0], "mode_method": s[1], "line": s[2], "effects": s[3]} for s in sites[:3]]
    r.require_floor(n, facts, "MODE-PURE.closures", "closures passed to Mode value methods")
    return r


# ====================================================================== UNSAFE-INV

UNSAFE_OPS = [
    # (label, predicate on callee)
    ("ContainerExactly", lambda f: (f.get("trait") == "container::ContainerExactly" and f["name"] in ("uninit", "write", "drop_before", "take"))),
    ("MaybeUninit", lambda f: "MaybeUninit" in callee_path(f) or "MaybeUninit" in f.get("self_ty", "") or "MaybeUninitExt" in (f.get("trait") or "")),
    ("assume_init", lambda f: f["name"].startswith("assume_init") or f["name"] == "array_assume_init"),
    ("ptr::read/write", lambda f: (callee_path(f).startswith("std::ptr::") or "std::ptr::" in f["path"]) and f["name"] in ("read", "write", "read_unaligned", "write_unaligned", "copy", "copy_nonoverlapping", "drop_in_place", "replace", "swap")),
    ("ptr method read/write", lambda f: ("*const" in f.get("self_ty", "") or "*mut" in f.get("self_ty", "") or "std::ptr::const_ptr" in f["path"] or "std::ptr::mut_ptr" in f["path"]) and f["name"] in ("read", "write", "drop_in_place", "cast", "add", "offset", "as_ref", "as_mut")),
    ("mem::forget/ManuallyDrop", lambda f: f["path"].endswith("mem::forget") or "ManuallyDrop" in f["path"] or "ManuallyDrop" in f.get("self_ty", "")),
    ("transmute", lambda f: "transmute" in f["name"]),
    ("from_raw/into_raw", lambda f: f["name"] in ("from_raw", "into_raw", "from_raw_parts", "from_raw_parts_mut", "leak")),
    ("unchecked", lambda f: f["name"].endswith("_unchecked") or f["name"] in ("unreachable_unchecked",)),
    ("mem::zeroed/uninitialized", lambda f: f["path"].endswith("mem::zeroed") or f["path"].endswith("mem::uninitialized")),
]

# function (qname) -> reason.  A function NOT listed here that uses one of the operations is reported.
UNSAFE_ALLOW = {
    "private::MaybeUninitExt::uninit_array": "array of MaybeUninit needs no initialisation",
    "std::mem::MaybeUninit[private::MaybeUninitExt]::uninit_array": "array of MaybeUninit needs no initialisation",
    "std::mem::MaybeUninit[private::MaybeUninitExt]::array_assume_init": "reads [MaybeUninit<T>;N] as [T;N]; callers: MAYBEUNINIT rule",
    "primitive::Group[Parser]::go": "array group writes N slots; path rule MAYBEUNINIT",
    "primitive::Group[Parser]::go::{closure#0}": "array group writes N slots; path rule MAYBEUNINIT",
    "combinator::CollectExactly[Parser]::go": "fixed-size collection; path rule MAYBEUNINIT",
}


def _root_q(q):
    """Owner function of a (possibly nested) closure: closure numbering is not a stable key."""
    return re.sub(r"(::\{closure#\d+\})+", "", q)


def rule_unsafe_inv(facts):
    r = RuleResult("UNSAFE-INV")
    uses = {}
    for b in facts.bodies:
        for _, bl, t, f in calls(b):
            if f is None:
                continue
            for label, pred in UNSAFE_OPS:
                try:
                    hit = pred(f)
                except Exception:
                    hit = False
                if hit:
                    uses.setdefault(_root_q(b["qname"]), set()).add((label, callee_path(f).split("<")[0][-60:]))
        for _, bl, s in mirq.assigns(b):
            rv = s["rv"]
            if rv["k"] == "cast" and "Transmute" in rv.get("ck", "") and not (
                    rv.get("from_ty", "").startswith("*const ()") or rv.get("from_ty", "").startswith("std::ptr::NonNull<")
                    or rv.get("from_ty", "").startswith("std::ptr::Unique<")):
                # (debug-assertion pointer checks and Box derefs are lowered to Transmute casts: not user code)
                uses.setdefault(_root_q(b["qname"]), set()).add(("transmute", "cast"))
    import unsafe_table
    for q, ops in sorted(uses.items()):
        reason = unsafe_table.ALLOW.get(q)
        if reason is None:
            # the same reviewed function after its trait / module was moved (private item): matched without module qualifiers
            sk = mirq.short_key(q)
            cands = [k for k in unsafe_table.ALLOW if mirq.short_key(k) == sk and not facts.by_qname.get(k)]
            if len(cands) == 1:
                reason = unsafe_table.ALLOW[cands[0]]
        b = facts.by_qname[q][0]
        r.ob(reason is not None)
        if reason is None:
            r.violations.append(V("UNSAFE-INV", q, "new leak/duplication-capable operation",
                                  "function %s uses %s but is not in the reviewed inventory (spec/unsafe_table.py): values could "
                                  "be leaked or duplicated outside the compiler's drop elaboration" % (q, sorted(ops)), *loc(b)))
    # `unsafe fn`s declared in the crate
    unsafe_fns = sorted(b["qname"] for b in facts.bodies if b.get("unsafe_fn"))
    r.explanation = ("inventory of every function that calls a leak/duplication-capable operation (MaybeUninit, assume_init*, "
                     "ptr::read/write, mem::forget, ManuallyDrop, transmute, from_raw/into_raw, *_unchecked): %d functions, each "
                     "listed with a reason in spec/unsafe_table.py; any new user is reported. Everywhere else rustc's ownership + drop "
                     "elaboration already guarantees exactly-once drops" % len(uses))
    r.nontrivial = len(uses)
    r.info = {"functions": {q: sorted(map(list, o)) for q, o in sorted(uses.items())}, "unsafe_fns": unsafe_fns}
    r.samples = [{"fn": q, "ops": sorted(map(list, o))} for q, o in sorted(uses.items())[:4]]
    r.require_floor(len(uses), facts, "UNSAFE-INV.functions", "functions with leak-capable operations")
    return r


# ====================================================================== MAYBEUNINIT (C19)

def closure_holders(b):
    holders = {}
    for _, bl, s in mirq.assigns(b):
        rv = s["rv"]
        if rv["k"] == "agg" and rv.get("ak") == "closure" and not s["place"]["p"]:
            holders[s["place"]["l"]] = (rv["closure_key"], rv["ops"])
    changed = True
    while changed:
        changed = False
        for _, bl, s in mirq.assigns(b):
            rv = s["rv"]
            src = None
            if rv["k"] == "use":
                src = mirq.operand_place(rv["op"])
            elif rv["k"] in ("ref", "copyderef"):
                src = rv["place"]
            if src is not None and src["l"] in holders and not src["p"] and not s["place"]["p"] and s["place"]["l"] not in holders:
                holders[s["place"]["l"]] = holders[src["l"]]
                changed = True
    return holders


def call_closures(facts, b):
    """bb index -> [(closure body, capture operands)] for closures passed as arguments of the call ending that block."""
    holders = closure_holders(b)
    out = {}
    for i, bl, t, f in calls(b):
        for a in t["args"]:
            pl = mirq.operand_place(a["op"])
            if pl is not None and pl["l"] in holders and not pl["p"]:
                key, ops = holders[pl["l"]]
                cb = facts.by_key.get(key)
                if cb is not None:
                    out.setdefault(i, []).append((cb, ops))
    return out


def _is_write(f):
    return f is not None and f["name"] == "write" and ("MaybeUninit" in f.get("self_ty", "") or "MaybeUninit" in f["path"]
                                                       or f.get("trait") == "container::ContainerExactly")


def _is_prefix_drop(f):
    return f is not None and (f["name"] == "assume_init_drop" or (f["name"] == "drop_before" and f.get("trait") == "container::ContainerExactly"))


def _is_take(f):
    return f is not None and (f["name"] in ("array_assume_init", "assume_init") or (f["name"] == "take" and f.get("trait") == "container::ContainerExactly"))


def _is_uninit(f):
    return f is not None and (f["name"] == "uninit_array" or (f["name"] == "uninit" and (f.get("trait") == "container::ContainerExactly" or "MaybeUninit" in f["path"])))


def _deep(facts, body, pred, depth=0):
    """Does `body` (or a closure nested in / passed within it) contain a call satisfying pred?"""
    for _, bl, t, f in calls(body):
        if pred(f):
            return True
    if depth < 4:
        for c in mirq.closure_bodies(facts, body, recursive=False):
            if _deep(facts, c, pred, depth + 1):
                return True
    return False


def rule_maybeuninit(facts):
    r = RuleResult("MAYBEUNINIT")
    holders = []
    for b in facts.bodies:
        if b["kind"] == "Closure":
            continue
        if (b.get("impl_trait") or "").split("::")[-1] in ("ContainerExactly", "MaybeUninitExt") or (b.get("in_trait") or "").split("::")[-1] in ("ContainerExactly", "MaybeUninitExt"):
            continue  # the primitives themselves (UNSAFE-INV inventory)
        if _deep(facts, b, _is_uninit):
            holders.append(b)
    for b in holders:
        cc = call_closures(facts, b)
        W, Dd, Dt = set(), set(), set()
        widx, didx = [], []
        for i, bl, t, f in calls(b):
            cls = cc.get(i, [])
            if _is_write(f) or any(_deep(facts, c, _is_write) for c, _ in cls):
                W.add(i)
                widx.append((i, cls))
            if _is_prefix_drop(f) or any(_deep(facts, c, _is_prefix_drop) for c, _ in cls):
                Dd.add(i)
                didx.append((i, cls))
            if _is_take(f) or any(_deep(facts, c, _is_take) for c, _ in cls):
                Dt.add(i)
        rets = set(mirq.return_blocks(b))
        # a prefix drop written as an explicit loop (`for o in &mut arr[..i] { o.assume_init_drop() }`): passing the loop's header IS the
        # drop of the prefix `..i` (zero iterations = the empty prefix), exactly like the call `arr[..i].iter_mut().for_each(..)`
        Dloop = set()
        for h, blocks in mirq.loops(b):
            if (blocks & Dd) and not (blocks & W):
                Dloop.add(h)
        Dd_pass = Dd | Dloop
        r.ob(bool(W) and bool(Dt))
        if not W or not Dt:
            r.violations.append(V("MAYBEUNINIT", b["uname"], "holder without write/consume",
                                  "partially-initialised container is created but %s" % ("never written" if not W else "never consumed (take/array_assume_init)"), *loc(b)))
            continue
        # (1) after any write, every way out passes a prefix drop or the consume
        for w in sorted(W):
            leak = set()
            for s in mirq.succs(b, w):
                leak |= (mirq.reachable(b, s, avoid=Dd_pass | Dt) & rets)
            # blocks in Dd|Dt that are themselves returns do not exist (they are calls)
            ok = not leak
            r.ob(ok)
            if not ok:
                r.violations.append(V("MAYBEUNINIT", b["uname"], "exit after write without prefix drop",
                                      "a path from the element write at line %d reaches a return (line %s) without dropping the "
                                      "initialised prefix (drop_before/assume_init_drop) and without consuming the container: "
                                      "already-produced values are leaked" % (b["blocks"][w]["line"], sorted(b["blocks"][x]["line"] for x in leak)),
                                      b["file"], b["blocks"][w]["line"]))
        # (2) no path runs a prefix drop and then consumes (double drop), nor consumes twice
        for d in sorted(Dd):
            after = set()
            for s in mirq.succs(b, d):
                after |= mirq.reachable(b, s)
            bad = after & Dt
            r.ob(not bad)
            if bad:
                r.violations.append(V("MAYBEUNINIT", b["uname"], "consume after prefix drop",
                                      "container consumed (line %s) on a path that already dropped its prefix (line %d): double drop"
                                      % (sorted(b["blocks"][x]["line"] for x in bad), b["blocks"][d]["line"]), b["file"], b["blocks"][d]["line"]))
        # (3) the consume happens only when all slots were written: the consume block must not be reachable
        #     from entry without passing the loop that writes (i.e. a W block or the loop exit of its loop)
        for tk in sorted(Dt):
            direct = tk in mirq.reachable(b, 0, avoid=W | _loop_headers_of(b, W))
            r.ob(not direct)
            if direct:
                r.violations.append(V("MAYBEUNINIT", b["uname"], "consume reachable without the write loop",
                                      "take/array_assume_init at line %d is reachable without passing the element-writing loop"
                                      % b["blocks"][tk]["line"], b["file"], b["blocks"][tk]["line"]))
        # (4) the prefix-drop count is the index of the failing iteration: same root as the write index
        pv = Prov(b)
        wroots = set()
        for i, cls in widx:
            for c, ops in cls:
                wroots |= _index_roots(facts, b, pv, c, ops, _is_write, 1)
        for i, cls in didx:
            for c, ops in cls:
                droots = _index_roots(facts, b, pv, c, ops, _is_prefix_drop, 1)
                if not droots:
                    continue
                ok = bool(wroots) and droots <= wroots
                r.ob(ok)
                if not ok:
                    r.violations.append(V("MAYBEUNINIT", b["uname"], "prefix-drop count is not the write index",
                                          "drop_before count derives from %s but elements are written at index %s"
                                          % (fmt_roots(droots), fmt_roots(wroots)), b["file"], b["blocks"][i]["line"]))
    r.explanation = ("for each of the %d holders of a partially initialised container (%s): after any element write every path to a "
                     "return passes a prefix drop or the final take; no path drops the prefix and then takes; the take is not reachable "
                     "around the write loop; the prefix-drop count has the same provenance as the write index"
                     % (len(holders), ", ".join(b["uname"] for b in holders)))
    r.nontrivial = len(holders)
    r.info = {"holders": [b["uname"] for b in holders]}
    r.samples = [{"holder": b["uname"]} for b in holders]
    r.require_floor(len(holders), facts, "MAYBEUNINIT.holders", "holders of partially initialised containers")
    return r


def _loop_headers_of(b, W):
    hs = set()
    for h, body in mirq.loops(b):
        if body & W:
            hs.add(h)
    return hs


def _index_roots(facts, parent, pv, clos, ops, pred, argi):
    """Provenance (in the parent) of argument #argi of the pred-call inside closure `clos`."""
    out = set()
    cpv = Prov(clos)
    for _, bl, t, f in calls(clos):
        if pred(f) and len(t["args"]) > argi:
            rs = cpv.of_operand(t["args"][argi]["op"])
            for x in rs:
                # ('arg', 1, '<n>') = n-th captured upvar of the closure environment
                if x[0] == "arg" and x[1] == 1 and len(x) >= 3 and x[2].isdigit() and int(x[2]) < len(ops):
                    out |= {("parent",) + (fmt_roots(pv.of_operand(ops[int(x[2])])),)}
                else:
                    out.add(("closure-local", mirq.fmt_root(x)))
    return out


# ====================================================================== NO-BACKTRACK (combinators with nothing to undo never rewind)

NO_BACKTRACK = [
    # (regex on body uname, why the combinator has nothing to undo)
    (r"^combinator::(Map|MapWith|To|Ignored|ToSlice|ToSpan|Filter|TryMap|TryMapWith|Unwrapped|Validate)\[(Parser|IterParser)\]::", "one child, result passed through"),
    (r"^label::Labelled\[Parser\]::|^combinator::(MapErr|MapErrWithState)\[Parser\]::", "changes how a failure is described, never whether or where"),
    (r"^combinator::Memoized\[Parser\]::", "transparent cache around one child"),
    (r"^(&T|Boxed|std::boxed::Box|std::rc::Rc|std::sync::Arc|either::Either)\[(Parser|ConfigParser)\]::|^recursive::Recursive\[Parser\]::", "forwarding impl"),
    (r"^combinator::(WithCtx|WithState|Configure|IterConfigure|TryIterConfigure)\[|^primitive::MapCtx\[", "context / state / configuration provider around one child"),
    (r"^combinator::(Then|IgnoreThen|ThenIgnore|DelimitedBy|PaddedBy|IgnoreWithCtx|ThenWithCtx)\[(Parser|IterParser)\]::|^primitive::Group\[", "sequence: a failed element fails the sequence, the caller restores"),
    (r"^combinator::(Collect|Foldl|FoldlWith|Foldr|FoldrWith|IntoIter|Enumerate)\[", "drives an iterable parser; the iterator undoes its own failed attempts"),
    (r"^combinator::NestedIn\[Parser\]::|^extension::current::Ext\[Parser\]::", "delegates to a sub-parse"),
]


def rule_no_backtrack(facts):
    r = RuleResult("NO-BACKTRACK")
    n = 0
    for b in facts.bodies:
        if b["kind"] == "Closure":
            continue
        why = None
        for pat, w in NO_BACKTRACK:
            if re.search(pat, b["uname"]):
                why = w
                break
        if why is None or not re.search(r"::(go|go_cfg|next|next_cfg|make_iter)(<.*>)?$", b["uname"]):
            continue
        n += 1
        hits = []
        for x in [b] + mirq.closure_bodies(facts, b):
            for _, bl, t, f in calls(x):
                if f is not None and f["name"] in ("rewind", "rewind_input") and (f.get("self_ty") or "").startswith("input::InputRef"):
                    hits.append((f["name"], x["file"], bl["line"]))
        r.ob(not hits)
        if hits:
            r.violations.append(V("NO-BACKTRACK", b["uname"], "rewind in a combinator with nothing to undo",
                                  "%s (%s) calls InputRef::%s: on its failure path that discards errors already emitted on a path the caller "
                                  "may still keep (at top level they are reported), on its success path it drops errors of kept output"
                                  % (b["uname"], why, hits[0][0]), hits[0][1], hits[0][2]))
    r.explanation = ("%d bodies of wrapper / sequence / forwarding combinators (spec: rules_struct.NO_BACKTRACK) never call "
                     "InputRef::rewind / rewind_input, directly or in their closures" % n)
    r.nontrivial = n
    r.require_floor(n, facts, "NO-BACKTRACK.bodies", "non-backtracking combinator bodies")
    return r

"""Model table for calls + the discipline rules that fire on protocol events.

Callee classes (DESIGN §2):
  F1      Parser::go / go_emit / go_check / ConfigParser::go_cfg / IterParser::{make_iter,next} /
          ConfigIterParser::next_cfg / Strategy::recover / Mode::invoke* / Pratt::pratt_go /
          closures `Fn(&mut InputRef, ..) -> Result<_, ()>`:
          Err ⇒ input poisoned (pos = X), errors.alt definitely Some, entry token preserved.
          Ok  ⇒ pos = S(site), emissions appended, errors.alt ⊒ entry value.
  USER    user closures / ExtParser taking the input and returning Result<_, E::Error>:
          Err ⇒ poisoned, errors.alt untouched (the error is *returned*).
  OP      pratt Operator::do_parse_*: Err ⇒ input restored to the checkpoint argument.
  PRIM    InputRef primitives.
"""
import mirq
import re
import os
from mirq import callee_path as mirq_callee_path
from interp import (contradicts, add_fact, TOP, UNIT, MOVED, AnalysisError, Inp, has_token, strip_token, taint_of, term_of,
                    norm_cmp, mk_struct, struct_get, describe, repr_term, Frame)

F1_TRAITS = {"Parser", "ConfigParser", "IterParser", "ConfigIterParser", "recovery::Strategy"}
F1_NAMES = {"go", "go_emit", "go_check", "go_cfg", "go_emit_cfg", "go_check_cfg", "make_iter", "next",
            "next_cfg", "recover"}
OP_NAMES = {"do_parse_prefix", "do_parse_postfix", "do_parse_infix"}
MODE_VALUE_FNS = {"bind", "map", "combine", "combine_mut", "array", "from_mut", "get_or"}

TOKEN_READERS = {"next_inner", "next_maybe_inner", "next_ref_inner", "next", "next_maybe", "next_ref"}
PEEKS = {"peek", "peek_maybe", "peek_ref"}


def short(path):
    return path.split("::")[-1]


class Models:
    def __init__(self, interp):
        self.I = interp
        self.exceptions_used = set()

    # ------------------------------------------------------------------ rule plumbing
    def poison_check(self, fr, n, what, line):
        pos = fr.st.inps[n].pos
        if pos[0] == "X":
            self.I.violate("POISON", "%s after failed %s" % (what, pos[1][0]),
                           "%s while the input is poisoned by the failure of %s (no rewind in between)"
                           % (what, pos[1][0]), fr.st, line, fr.body)

    def token_lost(self, fr, v, how, where, line):
        self.I.violate("ALT-LINEAR", "%s %s" % (where, how),
                       "the pending primary error held in `%s` is lost (%s)" % (where, how), fr.st, line, fr.body)

    def alt_discarded(self, fr, n, line):
        fr.st.ev("alt-discarded", line)

    def value_dropped(self, fr, lv, v, name, line):
        pass

    def cursor_write(self, fr, n, val, line):
        fr.st.ev("cursor-write", describe(val), line)
        if isinstance(val, tuple) and val[0] == "cursor":
            fr.st.inps[n].pos = val[1]
        else:
            fr.st.inps[n].pos = ("W", line)

    def node(self, fr, n, name):
        """A protocol node (child call / token read / operator / user parser) is reached: record the edge
        from the previous node and return the cursor tag before it."""
        st = fr.st
        pos = st.inps[n].pos
        self.I.record_edge(st, ("NODE", name), pos, st.inps[n], inner=(n != 0))
        return pos

    def desc_tag(self, st, tag, n=0, end=False):
        """One-word description of a cursor tag relative to the current path (for capture / argument effects)."""
        if not isinstance(tag, tuple) or not tag:
            return "?"
        if end and tag == st.inps[n].pos:
            return "here"
        if tag == ("E",):
            return "E"
        if tag[0] == "P":
            return str(tag[1])
        node, res, pb = st.last
        if node != "ENTRY" and tag == pb:
            return "before"
        if tag == st.inps[n].pos:
            return "here"
        if tag[0] == "S":
            return "after(%s)" % (str(tag[1][0]).replace(" ", ""),)
        if tag[0] == "T":
            return "read"
        if tag[0] == "X":
            return "poisoned"
        return "?"

    def cursor_tags(self, fr, v, depth=0):
        """Cursor tags held (transitively) by an abstract value."""
        v = self.deref_val(fr, v)
        out = []
        if isinstance(v, tuple) and v:
            if v[0] in ("cursor", "ckpt"):
                out.append(v[1])
            elif v[0] == "struct" and depth < 3:
                for _, x in v[1]:
                    out += self.cursor_tags(fr, x, depth + 1)
            elif v[0] == "enum" and depth < 3:
                for x in v[3]:
                    out += self.cursor_tags(fr, x, depth + 1)
        return out

    @staticmethod
    def invalidate(st, value):
        """A loop-variant value (token just read, iterator element) is produced afresh: facts established
        about the previous value bound to the same symbolic term no longer hold."""
        key = repr(term_of(value))
        if any(key in repr(t) for t, _ in st.facts):
            st.facts = frozenset((t, p) for t, p in st.facts if key not in repr(t))

    def after_node(self, st, name, result, pos_before):
        st.last = (name, result, pos_before)
        st.seg = ()

    # ------------------------------------------------------------------ aggregates
    def aggregate(self, fr, adt, r, ops, line):
        s = short(adt)
        names = r.get("fields") or [str(i) for i in range(len(ops))]
        d = {n: v for n, v in zip(names, ops)}
        if s == "Located":
            err = d.get("err")
            pos = d.get("pos")
            src = ("new", describe(pos))
            if isinstance(err, tuple) and err[0] == "alterr":
                if isinstance(pos, tuple) and pos[0] == "altpos" and pos[1] == err[2]:
                    src = err[2]
                return ("located", bool(err[1]), src)
            return ("located", False, src)
        return mk_struct(d)

    # ------------------------------------------------------------------ helpers
    def find_inp_arg(self, vals):
        for i, v in enumerate(vals):
            if isinstance(v, tuple) and v[0] == "inp":
                return i, v[1]
        return None, None

    def deref_val(self, fr, v, depth=0):
        """Look through references to the abstract value they designate."""
        while isinstance(v, tuple) and v[0] == "ref" and depth < 6:
            v = fr.read_lv(v[1])
            depth += 1
        return v

    def child_name(self, fr, v):
        if isinstance(v, tuple):
            if v[0] == "ref":
                lv = v[1]
                if lv[0] == "mem":
                    return ".".join([repr_term(lv[1])] + [str(x) if not isinstance(x, tuple) else x[1] for x in lv[2]])
                if lv[0] == "local":
                    inner = fr.read_lv(lv)
                    if isinstance(inner, tuple) and inner[0] in ("ref", "sym"):
                        return self.child_name(fr, inner)
                    b = fr.body
                    nm = None
                    if lv[1] == fr.fid and 0 <= lv[2] < len(b["locals"]):
                        nm = b["locals"][lv[2]].get("name")
                        if isinstance(inner, tuple) and inner[0] == "struct" and not lv[3] and not nm:
                            # a parser built in place with a struct literal (`Choice { parsers: .. }.go(inp)`): named like the call of its
                            # constructor function (`choice(..).go(inp)`) - the type's name applied to the field values
                            head = re.sub(r"<.*", "", b["locals"][lv[2]].get("ty", "")).lstrip("&").split("::")[-1]
                            if head:
                                snake = re.sub(r"(?<!^)(?=[A-Z])", "_", head).lower()
                                return "%s(%s)" % (snake, ",".join(repr_term(term_of(x)) for _, x in inner[1] if _ != "phantom"))
                    return "local:" + (nm or "tmp") + ("." + ".".join(str(x) for x in lv[3]) if lv[3] else "")
            if v[0] == "sym":
                return self.term_name(v[1])
        return "?"

    def term_name(self, t):
        """Readable, numbering-free name of a child designated by a symbolic term."""
        if not isinstance(t, tuple) or not t:
            return str(t)
        if t[0] in ("mem", "param", "field", "downcast"):
            return repr_term(t)
        return repr_term(t)

    def mode_of(self, f):
        nm = f["name"]
        if nm.endswith("_emit") or nm == "go_emit" or "_emit_" in nm:
            return "Emit"
        if nm.endswith("_check") or nm == "go_check" or "_check_" in nm:
            return "Check"
        for a in reversed(f.get("args", [])):
            if a in ("private::Emit", "private::Check"):
                return a.split("::")[-1]
            if a == "M":
                return "M"
        if f.get("trait") == "private::Mode":
            st = f.get("self_ty", "")
            if st in ("private::Emit", "private::Check"):
                return st.split("::")[-1]
            return "M"
        return "?"

    # ------------------------------------------------------------------ main dispatch
    def call(self, fr, t, line):
        func = t["func"]
        argops = [a["op"] for a in t["args"]]
        argtys = [a["ty"] for a in t["args"]]
        vals = [fr.operand(o, line) for o in argops]
        dest = t["dest"]
        dest_ty = t["dest_ty"]

        def finish(outs):
            res = []
            for st2, rv in outs:
                f2 = Frame(self.I, fr.body, fr.fid, st2, fr.depth)
                f2.write_lv(f2.lv(dest), rv, line)
                res.append(st2)
            return res

        if "k" not in func or "fn" not in func.get("k", {}):
            # call through a fn pointer / closure value held in a place
            callee = fr.operand(func, line)
            outs = self.indirect(fr, callee, vals, argtys, dest_ty, line, "fnptr")
            return finish(outs)
        f = func["k"]["fn"]
        outs = self.direct(fr, f, vals, argtys, dest_ty, line, t)
        return finish(outs)

    # ------------------------------------------------------------------ indirect calls
    def indirect(self, fr, callee, vals, argtys, dest_ty, line, how):
        callee = self.deref_val(fr, callee)
        if isinstance(callee, tuple) and callee[0] == "closure":
            return fr.call_closure(callee, vals, line)
        return self.user_call(fr, callee, vals, argtys, dest_ty, line)

    def user_call(self, fr, callee, vals, argtys, dest_ty, line):
        """A call to a closure/function value we cannot see (user code or a closure parameter)."""
        name = self.child_name(fr, callee) if isinstance(callee, tuple) else "?"
        # flatten a tupled argument pack
        flat = []
        for v in vals:
            if isinstance(v, tuple) and v[0] == "struct":
                flat.extend(x for _, x in v[1])
            else:
                flat.append(v)
        idx, n = self.find_inp_arg(flat)
        for v in flat:
            if has_token(v):
                self.token_lost(fr, v, "moved into a user closure", name, line)
        if idx is None:
            st = fr.st
            st.ev("user-call", name, line)
            return [(st, ("sym", ("usercall", name)))]
        # takes the input: F1 (Result<_, ()>) or USER (Result<_, E::Error>)
        is_unit_err = dest_ty.replace(" ", "").endswith(",()>")
        site = (name, "bb", line)
        self.poison_check(fr, n, "user parser call `%s`" % name, line)
        for v in flat:
            dvv = self.deref_val(fr, v)
            if isinstance(dvv, tuple) and dvv[0] in ("sym", "const") and not (dvv[0] == "sym" and dvv[1][:1] == ("inp_state",)):
                fr.st.ev("uarg", repr_term(term_of(dvv)))
        nname = "user:%s@%s" % (name, line)
        pb = self.node(fr, n, nname)
        outs = []
        ok = fr.st.copy()
        i = ok.inps[n]
        i.pos = ("S", site)
        i.errs = i.errs | {site}
        if i.some == "N":
            i.some = "M"
        ok.ev("call", name, "user", "Ok", line)
        self.after_node(ok, nname, "Ok", pb)
        outs.append((ok, ("enum", "Result", "Ok", (("out", frozenset([site])),))))
        er = fr.st.copy()
        self.after_node(er, nname, "Err", pb)
        i = er.inps[n]
        i.pos = ("X", site)
        i.errs = i.errs | {site}
        if is_unit_err:
            i.some = "S"
            er.ev("call", name, "F1", "Err", line)
            outs.append((er, ("enum", "Result", "Err", (UNIT,))))
        else:
            if i.some == "N":
                i.some = "M"
            er.ev("call", name, "user", "Err", line)
            outs.append((er, ("enum", "Result", "Err", (("sym", ("usererr", name)),))))
        return outs

    # ------------------------------------------------------------------ direct calls
    def direct(self, fr, f, vals, argtys, dest_ty, line, t):
        path = f["path"]
        name = f["name"]
        trait = f.get("trait")
        self_adt = f.get("self_adt") or (f.get("resolved") or {}).get("self_adt")
        st = fr.st

        # ---- Fn* traits: closure invocation
        if trait in ("std::ops::Fn", "std::ops::FnMut", "std::ops::FnOnce") and name in ("call", "call_mut", "call_once"):
            callee = self.deref_val(fr, vals[0])
            packed = vals[1] if len(vals) > 1 else UNIT
            args = [x for _, x in sorted(packed[1], key=lambda kv: int(kv[0]))] if (isinstance(packed, tuple) and packed[0] == "struct") else []
            if isinstance(callee, tuple) and callee[0] == "closure":
                return fr.call_closure(callee, args, line)
            if isinstance(callee, tuple) and callee[0] == "fnitem":
                return self.direct(fr, callee[1], args, [None] * len(args), dest_ty, line, t)
            return self.user_call(fr, vals[0], args, argtys, dest_ty, line)

        # ---- InputRef primitives
        if self_adt == "input::InputRef" and not trait:
            return self.inputref(fr, name, f, vals, dest_ty, line)

        # ---- class F1 child calls
        if (trait in F1_TRAITS and name in F1_NAMES) or (trait == "private::Mode" and name in ("invoke", "invoke_cfg")) \
                or path.endswith("Pratt::<Atom, Ops>::pratt_go") or (self_adt == "pratt::Pratt" and name == "pratt_go"):
            return self.f1_call(fr, f, vals, dest_ty, line)

        # ---- pratt operators
        base = name.replace("_emit", "").replace("_check", "")
        if (trait == "pratt::Operator" and base in OP_NAMES) or (trait == "private::Mode" and name.startswith("invoke_pratt_op_")):
            return self.op_call(fr, f, vals, dest_ty, line)

        # ---- extension parsers (user code; returns Result<O, E::Error>)
        if trait == "extension::current::ExtParser" and name in ("parse", "check"):
            return self.user_call(fr, vals[0], vals[1:], argtys, dest_ty, line)

        # ---- Mode value plumbing
        if trait == "private::Mode" and name in MODE_VALUE_FNS:
            tnt = frozenset()
            for v in vals:
                tnt |= taint_of(self.deref_val(fr, v))
            st.ev("mode", name, line)
            self.I.mode_calls.append((fr.body, name, vals, line, fr.st))
            self.harvest_closure(fr, name, vals, line)
            return [(st, ("out", tnt))]
        if trait == "private::Mode" and name == "choose":
            outs = []
            for cl in vals[1:3]:
                cv = self.deref_val(fr, cl)
                if isinstance(cv, tuple) and cv[0] == "closure":
                    outs.extend(fr.call_closure(cv, [vals[0]], line))
                else:
                    outs.extend(self.user_call(fr, cl, [vals[0]], argtys, dest_ty, line))
            return outs

        if path.startswith("recursive::recurse"):
            cv = self.deref_val(fr, vals[0])
            if isinstance(cv, tuple) and cv[0] == "closure":
                st.ev("recurse", line)
                return fr.call_closure(cv, [], line)

        if path.startswith("input::MapExtra") and name == "new":
            before = self.deref_val(fr, vals[0])
            _, n = self.find_inp_arg(vals)
            pos = st.inps[n].pos if n is not None else ("?",)
            start = before[1] if isinstance(before, tuple) and before[0] in ("cursor", "ckpt") else ("?",)
            st.ev("capture", "MapExtra", start, pos, line)
            st.ev("cap", "extra", self.desc_tag(st, start, n if n is not None else 0), self.desc_tag(st, pos, n if n is not None else 0, end=True))
            self.I.captures.append((fr.body, "MapExtra::new", start, pos, line, st))
            return [(st, ("mapextra", start, pos))]

        return self.std(fr, f, vals, argtys, dest_ty, line)

    def harvest_closure(self, fr, name, vals, line):
        """The closure handed to a Mode value method runs (in Emit) right here.  It is parse-state-pure
        (rule MODE-PURE), so it is interpreted on a scratch copy of the state only to collect the span/slice
        captures and cursor stashes it performs; those become effects of the current automaton edge."""
        cl = None
        for v in reversed(vals):
            cv = self.deref_val(fr, v)
            if isinstance(cv, tuple) and cv[0] == "closure":
                cl = cv
                break
        if cl is None:
            return
        args = {"bind": [], "map": vals[:1], "combine": vals[:2], "combine_mut": vals[:2], "get_or": []}.get(name)
        if args is None:
            return
        body = self.I.facts.by_key.get(cl[1])
        if body is None:
            return
        nargs = body["arg_count"] - 1
        args = list(args)[:nargs] + [TOP] * max(0, nargs - len(args))
        scratch = fr.st.copy()
        f2 = Frame(self.I, fr.body, fr.fid, scratch, fr.depth)
        before = len(scratch.trace)
        saved_v = len(self.I.violations)
        saved_logs = (len(self.I.captures),)
        try:
            outs = f2.call_closure(cl, args, line) or []
        except AnalysisError:
            outs = []
        # nothing the scratch run "violates" counts (MODE-PURE is decided separately)
        del self.I.violations[saved_v:]
        found = []
        for s2, _ in outs:
            for e in s2.trace[before:]:
                if e[0] in ("cap", "stash", "order") and e not in found:
                    found.append(e)
        for e in found:
            fr.st.ev(*e)

    # ------------------------------------------------------------------ F1
    def local_body_of(self, f):
        rp = mirq_callee_path(f)
        if not hasattr(self.I, "_by_path"):
            self.I._by_path = {}
            for b_ in self.I.facts.bodies:
                self.I._by_path.setdefault(b_["path"], []).append(b_)
        bs = self.I._by_path.get(rp) or []
        return bs[0] if len(bs) == 1 else None

    def f1_call(self, fr, f, vals, dest_ty, line):
        name = f["name"]
        # retry mode of rule CONTRACT: a body that delegates to another protocol method of the same receiver
        # (`Repeated::next` -> `self.next_cfg(.., &Default::default())`) is compared after inlining that method
        root = getattr(self.I, "inline_self_root", None)
        if root is not None and fr.depth < 3 and (f.get("resolved") or {}).get("self_adt") and \
                (f.get("resolved") or {}).get("self_adt") == root.get("impl_self_adt") and name != root["name"] and \
                f.get("trait") != "private::Mode":
            cb = self.local_body_of(f)
            recv = self.deref_val(fr, vals[0]) if vals else None
            if cb is not None and cb is not root and self.child_name(fr, vals[0]) == "self":
                return self.I.run_body(cb, list(vals), fr.st, fr.depth + 1)
        idx, n = self.find_inp_arg(vals)
        if idx is None:
            raise AnalysisError("F1 call %s without an input argument in %s" % (f["path"], fr.body["uname"]))
        recv = vals[0] if idx != 0 else (vals[1] if len(vals) > 1 else None)
        child = self.child_name(fr, recv)
        if f.get("trait") == "private::Mode":
            child = self.child_name(fr, vals[0])
        mode = self.mode_of(f)
        site = (child, name, line)
        self.poison_check(fr, n, "child call `%s.%s`" % (child, name), line)
        for v in vals:
            if has_token(v):
                self.token_lost(fr, v, "moved into a child parser call", child, line)
        self_ty = f.get("self_ty", "")
        if name == "recover" and fr.st.inps[n].some != "S":
            self.I.violate("PFAIL", "recover() called without a recorded alt",
                           "Strategy::recover requires errors.alt to be Some (it unwraps it)", fr.st, line, fr.body)
        res = []
        kinds = ["Ok", "Err"]
        if name in ("next", "next_cfg"):
            kinds = ["Ok(Some)", "Ok(None)", "Err"]
        fnc = {"go_emit": "go", "go_check": "go", "go_emit_cfg": "go_cfg", "go_check_cfg": "go_cfg", "invoke": "go",
               "invoke_cfg": "go_cfg"}.get(name, name)
        if name == "pratt_go":
            for v in vals[idx + 1:]:
                dvv = self.deref_val(fr, v)
                if isinstance(dvv, tuple) and dvv[0] in ("sym", "const"):
                    fr.st.ev("uarg", repr_term(term_of(dvv)))
        nname = "%s.%s:%s@%s" % (child, fnc, mode, line)
        pb = self.node(fr, n, nname)
        for k in kinds:
            s2 = fr.st.copy()
            self.after_node(s2, nname, k, pb)
            i = s2.inps[n]
            i.errs = i.errs | {site}
            i.truncated = i.truncated - {site}
            if k == "Err":
                i.pos = ("X", site)
                i.some = "S"
                rv = ("enum", "Result", "Err", (UNIT,))
            else:
                i.pos = ("S", site) if k != "Ok(None)" else ("S", site)
                if i.some == "N":
                    i.some = "M"
                if name == "recover":
                    # contract of Strategy::recover (checked on every strategy body): on Ok the
                    # alt taken at entry has been emitted exactly once (legal sink of the token)
                    if i.tok:
                        s2.flags = s2.flags | {"tok_sunk_emit"}
                    i.tok = False
                    i.some = "M"
                out = ("out", frozenset([site]))
                if k == "Ok":
                    rv = ("enum", "Result", "Ok", (out,))
                elif k == "Ok(Some)":
                    rv = ("enum", "Result", "Ok", (("enum", "Option", "Some", (out,)),))
                else:
                    rv = ("enum", "Result", "Ok", (("enum", "Option", "None", ()),))
            s2.ev("call", child, name, mode, k, self_ty, line)
            res.append((s2, rv))
        self.I.child_calls.append((fr.body, child, name, mode, self_ty, line, fr.st))
        return res

    # ------------------------------------------------------------------ pratt operators
    def op_call(self, fr, f, vals, dest_ty, line):
        name = f["name"]
        idx, n = self.find_inp_arg(vals)
        if f.get("trait") == "private::Mode":
            opv = vals[0]
            rest = vals[idx + 1:]
            kind = name.replace("invoke_pratt_op_", "")
        else:
            opv = vals[0]
            rest = vals[idx + 1:]
            kind = name.replace("do_parse_", "").replace("_emit", "").replace("_check", "")
        child = self.child_name(fr, opv)
        site = (child, "op_" + kind, line)
        self.poison_check(fr, n, "operator call `%s`" % child, line)
        # which argument is the restore checkpoint
        ck = None
        lhs = None
        if kind == "prefix":
            ck = self.deref_val(fr, rest[0])
        else:
            ck = self.deref_val(fr, rest[1])
            lhs = rest[2]
        res = []
        # which positions the operator is told about: the expression start (span of the fold) and its checkpoint
        names = ["pre_expr"] if kind == "prefix" else ["pre_expr", "pre_op"]
        for nm_, av in zip(names, rest[:len(names)]):
            for tag in self.cursor_tags(fr, av)[:1]:
                fr.st.ev("oparg", nm_, self.desc_tag(fr.st, tag, n, end=True))
        nname = "%s.op_%s:%s@%s" % (child, kind, self.mode_of(f), line)
        pb = self.node(fr, n, nname)
        ok = fr.st.copy()
        self.after_node(ok, nname, "Ok", pb)
        i = ok.inps[n]
        i.pos = ("S", site)
        i.errs = i.errs | {site}
        if i.some == "N":
            i.some = "M"
        tnt = frozenset([site]) | (taint_of(lhs) if lhs is not None else frozenset())
        ok.ev("opcall", child, kind, "Ok", line)
        res.append((ok, ("enum", "Result", "Ok", (("out", tnt),))))
        er = fr.st.copy()
        self.after_node(er, nname, "Err", pb)
        i = er.inps[n]
        if isinstance(ck, tuple) and ck[0] == "ckpt":
            i.pos = ck[1]
            i.errs = ck[2] if kind != "prefix" else ck[2]
        else:
            raise AnalysisError("operator call with unknown checkpoint in %s" % fr.body["uname"])
        if i.some == "N":
            i.some = "M"
        er.ev("opcall", child, kind, "Err", line)
        res.append((er, ("enum", "Result", "Err", ((lhs if lhs is not None else UNIT),))))
        self.I.child_calls.append((fr.body, child, "op_" + kind, self.mode_of(f), f.get("self_ty", ""), line, fr.st))
        return res

    # ------------------------------------------------------------------ InputRef primitives
    def inputref(self, fr, name, f, vals, dest_ty, line):
        st = fr.st
        idx, n = self.find_inp_arg(vals)
        if idx is None:
            # e.g. called on a freshly built InputRef we do not track
            raise AnalysisError("InputRef::%s on an untracked input in %s" % (name, fr.body["uname"]))
        i = st.inps[n]
        if name == "save":
            self.poison_check(fr, n, "save()", line)
            st.ev("save", i.pos, line)
            return [(st, ("ckpt", i.pos, i.errs, line))]
        if name == "cursor":
            return [(st, ("cursor", i.pos))]
        if name == "rewind":
            ck = self.deref_val(fr, vals[1])
            if not (isinstance(ck, tuple) and ck[0] == "ckpt"):
                raise AnalysisError("rewind to an untracked checkpoint in %s (line %s)" % (fr.body["uname"], line))
            self.rewind(fr, n, ck, line)
            return [(st, UNIT)]
        if name == "rewind_input":
            ck = self.deref_val(fr, vals[1])
            if not (isinstance(ck, tuple) and ck[0] == "ckpt"):
                raise AnalysisError("rewind_input to an untracked checkpoint in %s (line %s)" % (fr.body["uname"], line))
            # position-only restore: legal only on a clean input (after a *successful* sub-parse);
            # after a failure the abandoned attempt's emissions must be truncated, i.e. a full rewind.
            self.poison_check(fr, n, "position-only rewind_input()", line)
            if ck[1][0] == "X":
                self.I.violate("POISON", "rewind_input to checkpoint saved after failed %s" % ck[1][1][0],
                               "rewind target was saved while the input was poisoned", st, line, fr.body)
            st.ev("rewind_input", ck[1], line)
            self.I.rewinds.append((fr.body, ck[1], i.pos, line, st))
            i.pos = ck[1]
            return [(st, UNIT)]
        if name in TOKEN_READERS or name == "skip":
            self.poison_check(fr, n, "token read %s()" % name, line)
            site = ("token", name, line)
            nname = "read@%s" % line
            pb = self.node(fr, n, nname)
            some = st.copy()
            self.after_node(some, nname, "Some", pb)
            some.inps[n].pos = ("T", site)
            self.invalidate(some, ("tok", site))
            self.invalidate(some, ("sym", ("peek",)))
            some.ev("read", name, "Some", line)
            none = st.copy()
            self.after_node(none, nname, "None", pb)
            none.ev("read", name, "None", line)
            if name == "skip":
                return [(some, UNIT), (none, UNIT)]
            return [(some, ("enum", "Option", "Some", (("tok", site),))),
                    (none, ("enum", "Option", "None", ()))]
        if name in ("skip_while", "skip_bytes"):
            self.poison_check(fr, n, "%s()" % name, line)
            site = ("token", name, line)
            if name == "skip_while" and len(vals) > 1:
                cv = self.deref_val(fr, vals[1])
                if isinstance(cv, tuple) and cv[0] in ("closure", "fnitem"):
                    st.ev("uarg", repr_term(term_of(cv)))
            pb = self.node(fr, n, "%s@%s" % (name, line))
            self.after_node(st, "%s@%s" % (name, line), "done", pb)
            i.pos = ("T", site)
            st.ev("read", name, "*", line)
            return [(st, UNIT)]
        if name in PEEKS:
            return [(st, ("sym", ("peek",)))]
        if name in ("span_since", "slice_since"):
            c = self.deref_val(fr, vals[1])
            if isinstance(c, tuple) and c[0] == "struct":
                c = self.deref_val(fr, struct_get(c, "start"))
            start = c[1] if isinstance(c, tuple) and c[0] in ("cursor", "ckpt") else ("?", describe(c))
            st.ev("capture", name, start, i.pos, line)
            st.ev("cap", name, self.desc_tag(st, start, n), "here")
            self.I.captures.append((fr.body, name, start, i.pos, line, st))
            return [(st, ("span", start, i.pos))]
        if name in ("slice", "slice_from", "span_from", "full_slice", "slice_trailing_inner"):
            return [(st, ("sym", (name, ("at", self.desc_tag(st, i.pos, n)))))]     # the slice at the current position (no source line in terms)
        if name == "state":
            return [(st, ("sym", ("inp_state", n)))]
        if name == "ctx":
            return [(st, ("sym", ("inp_ctx", n)))]
        if name == "emit":
            self.poison_check(fr, n, "emit()", line)
            err = vals[2] if len(vals) > 2 else TOP
            site = ("emit", describe(err), line)
            i.errs = i.errs | {site}
            em = (describe(err), describe(self.deref_val(fr, vals[1])))
            if i.emits.count(em) < 2:
                i.emits = i.emits + (em,)
            if has_token(err):
                st.flags = st.flags | {"tok_sunk_emit"}
            cv = self.deref_val(fr, vals[1]) if len(vals) > 1 else TOP
            if isinstance(cv, tuple) and cv[0] == "enum" and cv[1] == "Option":
                cv = "here" if cv[2] == "None" else (cv[3][0] if cv[3] else TOP)
            if isinstance(cv, tuple) and cv[0] in ("cursor", "ckpt"):
                at = self.desc_tag(st, cv[1], n)
            elif cv == "here":
                at = "here"
            else:
                at = "?"
            st.ev("emit", at, describe(err), line)
            return [(st, UNIT)]
        if name == "add_alt":
            i.some = "S"
            span = vals[3] if len(vals) > 3 else TOP
            found = vals[2] if len(vals) > 2 else TOP
            fv = self.deref_val(fr, found)
            fk = "?"
            if isinstance(fv, tuple) and fv[0] == "enum" and fv[1] == "Option":
                if fv[2] == "None":
                    fk = "none"
                elif fv[3] and isinstance(fv[3][0], tuple) and fv[3][0][0] == "tok":
                    fk = "tok"
            sv = self.deref_val(fr, span)
            sp = "?"
            if isinstance(sv, tuple) and sv[0] == "span":
                sp = "%s..%s" % (self.desc_tag(st, sv[1], n), self.desc_tag(st, sv[2], n))
            st.ev("add_alt", fk, sp, self.desc_tag(st, i.pos, n))
            self.I.alt_adds.append((fr.body, "add_alt", found, span, i.pos, line, st))
            return [(st, UNIT)]
        if name == "add_alt_err":
            at = self.deref_val(fr, vals[1])
            err = vals[2]
            if has_token(err):
                i.tok = True
            i.some = "S"
            ad = "?"
            if isinstance(at, tuple) and at[0] == "cursor":
                ad = self.desc_tag(st, at[1], n)
            elif isinstance(at, tuple) and at[0] == "altpos":
                ad = "own"
            elif isinstance(at, tuple) and at[0] == "sym" and str(at[1]).endswith("'pos')"):
                ad = "stored.pos"
            ek = "?"
            if isinstance(err, tuple) and err[0] == "alterr":
                ek = "taken"
            elif isinstance(err, tuple) and err[0] == "sym":
                ek = "user" if ("usercall" in str(err[1]) or "usererr" in str(err[1])) else ("stored" if str(err[1]).endswith("'err')") else "?")
            st.ev("add_alt_err", ad, ek)
            self.I.alt_adds.append((fr.body, "add_alt_err", at, err, i.pos, line, st))
            self.alt_pos_check(fr, at, err, line)
            return [(st, UNIT)]
        if name == "take_alt":
            v = ("optalt", i.tok, i.some, ("take",))
            i.tok, i.some = False, "N"
            st.ev("take_alt", describe(v), line)
            return [(st, v)]
        if name in ("with_ctx", "with_state"):
            cl = self.deref_val(fr, vals[2])
            st.ev(name, describe(self.deref_val(fr, vals[1])), line)
            self.I.ctx_calls.append((fr.body, name, vals[1], line, st))
            if isinstance(cl, tuple) and cl[0] == "closure":
                return fr.call_closure(cl, [("inp", n)], line)
            return self.user_call(fr, vals[2], [("inp", n)], [], dest_ty, line)
        if name == "with_input":
            return self.with_input(fr, n, vals, dest_ty, line)
        if name in ("parse", "check"):
            # InputRef::parse(parser): Result<O, E::Error>; Err ⇒ alt taken & returned
            return self.user_call(fr, vals[1], [("inp", n)], [], dest_ty, line)
        # an InputRef method outside the modelled vocabulary (a new crate-private helper such as `is_at`, `skip_to`):
        # interpret its body in place - what it does to the cursor / error slots shows up in the caller's typestate and
        # automaton exactly as if the caller had written it out (direct field writes are classified by HOOKS-WRITERS)
        cb = self.local_body_of(f)
        if cb is not None and fr.depth < 4 and cb is not fr.body and cb is not getattr(self.I, "cur_root", None):
            self.I.stats["helpers_inlined"] = self.I.stats.get("helpers_inlined", 0) + 1
            return self.I.run_body(cb, list(vals), fr.st, fr.depth + 1)
        raise AnalysisError("unmodelled InputRef method %s (unknown effect) in %s" % (name, fr.body["uname"]))

    def rewind(self, fr, n, ck, line):
        st = fr.st
        i = st.inps[n]
        pos, errs = ck[1], ck[2]
        if pos[0] == "X":
            self.I.violate("POISON", "rewind to checkpoint saved after failed %s" % pos[1][0],
                           "rewind target was saved while the input was poisoned", st, line, fr.body)
        if not errs <= i.errs:
            missing = sorted(x[0] for x in errs - i.errs)
            self.I.violate("LIFO", "forward rewind over %s" % ",".join(missing),
                           "rewind to a checkpoint whose emission prefix (%s) was already truncated away: "
                           "err_count no longer denotes a prefix" % ",".join(missing), st, line, fr.body)
        dropped = i.errs - errs
        i.truncated = i.truncated | dropped
        st.ev("rewind", pos, sorted(x[0] for x in dropped), line)
        self.I.rewinds.append((fr.body, pos, i.pos, line, st))
        i.pos = pos
        i.errs = errs

    def alt_pos_check(self, fr, at, err, line):
        if isinstance(err, tuple) and err[0] == "sym" and err[1][0] == "field" and err[1][2] == "err":
            # `X.err` of a stored Located (e.g. a memoised alt): must be re-added at `X.pos`
            want = ("field", err[1][1], "pos")
            got = at[1] if isinstance(at, tuple) and at[0] == "sym" else None
            if got is not None and got[0] == "mem":
                got = got[1]
            if got != want:
                if fr.I.cur_root["uname"] in self.I.spec.ALT_POS_EXCEPTIONS:
                    self.exceptions_used.add(("ALT-POS", fr.I.cur_root["uname"]))
                    return
                self.I.violate("ALT-POS", "stored alt re-homed at %s" % describe(at),
                               "a stored Located error (%s) is re-added at %s instead of its own `.pos`"
                               % (repr_term(err[1]), describe(at)), fr.st, line, fr.body)
            return
        if isinstance(err, tuple) and err[0] == "alterr":
            src = err[2]
            if not (isinstance(at, tuple) and at[0] == "altpos" and at[1] == src):
                if fr.I.cur_root["uname"] in self.I.spec.ALT_POS_EXCEPTIONS:
                    self.exceptions_used.add(("ALT-POS", fr.I.cur_root["uname"]))
                    return
                self.I.violate("ALT-POS", "re-homed at %s" % describe(at),
                               "an error taken from errors.alt is re-added at %s instead of its own position"
                               % describe(at), fr.st, line, fr.body)

    def with_input(self, fr, n, vals, dest_ty, line):
        st = fr.st
        outer = st.inps[n]
        if outer.some != "N":
            self.I.violate("ALT-LINEAR", "with_input with pending alt",
                           "with_input may overwrite errors.alt; caller must shelter it first", st, line, fr.body)
        cl = None
        for v in vals:
            dv = self.deref_val(fr, v)
            if isinstance(dv, tuple) and dv[0] == "closure":
                cl = dv
        if cl is None:
            raise AnalysisError("with_input without closure")
        s2 = st.copy()
        s2.inps.append(Inp(kind="inner", tok=False, some="N"))
        m = len(s2.inps) - 1
        f2 = Frame(self.I, fr.body, fr.fid, s2, fr.depth)
        s2.ev("with_input", line)
        outs = f2.call_closure(cl, [("inp", m)], line)
        res = []
        for s3, rv in outs:
            inner = s3.inps.pop()
            o = s3.inps[n]
            site = ("nested", "with_input", line)
            o.errs = o.errs | {site}
            if inner.some == "S":
                o.tok, o.some = False, "S"
            elif inner.some == "M":
                o.some = "M"
            s3.ev("with_input-end", inner.pos, inner.some, line)
            self.I.nested.append((fr.body, inner.pos, inner.some, self.I.classify(rv), line, s3))
            res.append((s3, rv))
        return res

    # ------------------------------------------------------------------ std adaptors
    def std(self, fr, f, vals, argtys, dest_ty, line):
        path = f["path"]
        name = f["name"]
        trait = f.get("trait") or ""
        st = fr.st
        rpath = (f.get("resolved") or {}).get("path", "")
        self_ty = f.get("self_ty", "")
        dv = [self.deref_val(fr, v) for v in vals]
        is_opt = path.startswith("std::option::Option::") or self_ty.startswith("std::option::Option<")
        is_res = path.startswith("std::result::Result::") or self_ty.startswith("std::result::Result<")

        def enum_of(v):
            return v if (isinstance(v, tuple) and v[0] == "enum") else None

        # ---- Try / FromResidual
        if trait == "std::ops::Try" and name == "branch":
            v = dv[0]
            outs = []
            for st2, e in self.split_enum(fr, v, ["Ok", "Err"] if is_res else ["Some", "None"]):
                if e[2] in ("Ok", "Some"):
                    outs.append((st2, ("enum", "ControlFlow", "Continue", e[3][:1] or (UNIT,))))
                else:
                    outs.append((st2, ("enum", "ControlFlow", "Break", (("enum", e[1], e[2], e[3]),))))
            return outs
        if trait == "std::ops::FromResidual" and name == "from_residual":
            v = dv[0]
            if enum_of(v):
                return [(st, ("enum", v[1], v[2], v[3]))]
            return [(st, ("enum", "Result", "Err", (UNIT,)))]

        # ---- core::mem::replace(&mut inp.errors.alt, v)  ==  { let old = slot.take(); slot = v; old }
        if name == "replace" and (f.get("path") or "").endswith("mem::replace") and len(vals) == 2:
            tgt = vals[0]
            if isinstance(tgt, tuple) and tgt[0] == "slotref":
                i = st.inps[tgt[1]]
                v = ("optalt", i.tok, i.some, ("take",))
                i.tok, i.some = False, "N"
                st.ev("take_alt", describe(v), line)
                fr.write_slot(tgt[1], vals[1], line)
                return [(st, v)]
            if isinstance(tgt, tuple) and tgt[0] == "ref":
                v = fr.read_lv(tgt[1])
                fr.write_lv(tgt[1], vals[1], line)
                return [(st, v)]
        if name == "take" and (f.get("path") or "").endswith("mem::take") and len(vals) == 1:
            tgt = vals[0]
            if isinstance(tgt, tuple) and tgt[0] == "slotref":
                i = st.inps[tgt[1]]
                v = ("optalt", i.tok, i.some, ("take",))
                i.tok, i.some = False, "N"
                st.ev("take_alt", describe(v), line)
                return [(st, v)]
        # ---- Option<Located> / generic Option
        if is_opt and name == "take":
            tgt = vals[0]
            if isinstance(tgt, tuple) and tgt[0] == "slotref":
                i = st.inps[tgt[1]]
                v = ("optalt", i.tok, i.some, ("take",))
                i.tok, i.some = False, "N"
                st.ev("take_alt", describe(v), line)
                return [(st, v)]
            if isinstance(tgt, tuple) and tgt[0] == "ref":
                v = fr.read_lv(tgt[1])
                if isinstance(v, tuple) and v[0] == "optalt":
                    fr.write_lv(tgt[1], ("optalt", False, "N"))
                else:
                    fr.write_lv(tgt[1], ("enum", "Option", "None", ()))
                return [(st, v)]
            return [(st, TOP)]
        if is_opt and name in ("unwrap", "expect", "unwrap_unchecked"):
            v = dv[0]
            if isinstance(v, tuple) and v[0] == "optalt":
                if v[2] != "S":
                    self.I.violate("PFAIL", "unwrap of possibly-empty errors.alt",
                                   "`%s` on errors.alt that is %s on this path (the \"Can't fail!\" invariant does not hold)"
                                   % (name, {"N": "None", "M": "possibly None"}[v[2]]), st, line, fr.body)
                self.I.unwrap_sites.append((fr.body, line, v[2]))
                return [(st, ("located", v[1], v[3] if len(v) > 3 else None))]
            if enum_of(v):
                if v[2] == "Some":
                    return [(st, v[3][0])]
                return []
            return [(st, self.payload(v, "Some"))]
        if is_opt and name in ("is_some", "is_none"):
            v = dv[0]
            want = name == "is_some"
            if isinstance(v, tuple) and v[0] == "optalt" and v[2] != "M":
                return [(st, ("bool", (v[2] == "S") == want))]
            if enum_of(v):
                return [(st, ("bool", (v[2] == "Some") == want))]
            outs = []
            for st2, e in self.split_enum(fr, v, ["Some", "None"], vals[0]):
                outs.append((st2, ("bool", (e[2] == "Some") == want)))
            return outs
        if is_opt and name in ("as_ref", "as_mut", "as_deref"):
            return [(st, dv[0])]
        if is_opt and name == "map":
            outs = []
            for st2, e in self.split_enum(fr, dv[0], ["Some", "None"]):
                if e[2] == "None":
                    outs.append((st2, e))
                else:
                    f2 = Frame(self.I, fr.body, fr.fid, st2, fr.depth)
                    for st3, r in self.apply(f2, vals[1], [e[3][0] if e[3] else TOP], line):
                        outs.append((st3, ("enum", "Option", "Some", (r,))))
            return outs
        if is_opt and name == "and_then":
            outs = []
            for st2, e in self.split_enum(fr, dv[0], ["Some", "None"]):
                if e[2] == "None":
                    outs.append((st2, e))
                else:
                    f2 = Frame(self.I, fr.body, fr.fid, st2, fr.depth)
                    outs.extend(self.apply(f2, vals[1], [e[3][0] if e[3] else TOP], line))
            return outs
        if is_opt and name in ("map_or", "map_or_else", "is_some_and", "is_none_or"):
            # semantics, not an opaque term: the same atoms as the `match` / `matches!` / `if let` spelling
            outs = []
            for st2, e in self.split_enum(fr, dv[0], ["Some", "None"]):
                f2 = Frame(self.I, fr.body, fr.fid, st2, fr.depth)
                if e[2] == "None":
                    if name == "map_or":
                        outs.append((st2, vals[1]))
                    elif name == "map_or_else":
                        outs.extend(self.apply(f2, vals[1], [], line))
                    else:
                        outs.append((st2, ("bool", name == "is_none_or")))
                else:
                    fn = vals[2] if name in ("map_or", "map_or_else") else vals[1]
                    outs.extend(self.apply(f2, fn, [e[3][0] if e[3] else TOP], line))
            return outs
        if is_opt and name == "filter":
            outs = []
            for st2, e in self.split_enum(fr, dv[0], ["Some", "None"]):
                if e[2] == "None":
                    outs.append((st2, e))
                else:
                    f2 = Frame(self.I, fr.body, fr.fid, st2, fr.depth)
                    for st3, r in self.apply(f2, vals[1], [e[3][0] if e[3] else TOP], line):
                        for st4, b in self.split_bool(f2, st3, r, line):
                            outs.append((st4, e if b else ("enum", "Option", "None", ())))
            return outs
        if is_opt and name in ("unwrap_or", "unwrap_or_default") and isinstance(dv[0], tuple) and dv[0][0] == "sym":
            if name == "unwrap_or":
                return [(st, ("sym", ("unwrap_or", term_of(dv[0]), term_of(dv[1]))))]
            return [(st, ("sym", ("unwrap_or_default", term_of(dv[0]))))]
        if is_opt and name in ("unwrap_or", "unwrap_or_else", "unwrap_or_default"):
            outs = []
            for st2, e in self.split_enum(fr, dv[0], ["Some", "None"]):
                if e[2] == "Some":
                    outs.append((st2, e[3][0] if e[3] else TOP))
                elif name == "unwrap_or":
                    outs.append((st2, vals[1]))
                elif name == "unwrap_or_else":
                    f2 = Frame(self.I, fr.body, fr.fid, st2, fr.depth)
                    outs.extend(self.apply(f2, vals[1], [], line))
                else:
                    outs.append((st2, TOP))
            return outs
        if is_opt and name in ("insert", "get_or_insert", "get_or_insert_with"):
            tgt = vals[0]
            if isinstance(tgt, tuple) and tgt[0] == "ref" and name == "insert":
                fr.write_lv(tgt[1], ("enum", "Option", "Some", (vals[1],)))
                return [(st, vals[1])]
            return [(st, TOP)]
        if is_opt and name == "ok_or":
            outs = []
            for st2, e in self.split_enum(fr, dv[0], ["Some", "None"]):
                if e[2] == "Some":
                    outs.append((st2, ("enum", "Result", "Ok", e[3])))
                else:
                    outs.append((st2, ("enum", "Result", "Err", (vals[1],))))
            return outs

        # ---- Result
        if is_res and name in ("is_ok", "is_err"):
            want = name == "is_ok"
            outs = []
            for st2, e in self.split_enum(fr, dv[0], ["Ok", "Err"], vals[0]):
                outs.append((st2, ("bool", (e[2] == "Ok") == want)))
            return outs
        if is_res and name == "ok":
            outs = []
            for st2, e in self.split_enum(fr, dv[0], ["Ok", "Err"]):
                outs.append((st2, ("enum", "Option", "Some", e[3]) if e[2] == "Ok" else ("enum", "Option", "None", ())))
            return outs
        if name in ("or_else", "or") and (is_opt or is_res) and len(vals) == 2:
            # Option::or_else(|| ..) / Result::or_else(|e| ..): the fallback runs only for None / Err - its effects (a rewind, an alt
            # restore) belong to that path
            outs = []
            names = ["Some", "None"] if is_opt else ["Ok", "Err"]
            for st2, e in self.split_enum(fr, dv[0], names):
                if e[2] in ("Some", "Ok"):
                    outs.append((st2, e))
                elif name == "or":
                    outs.append((st2, dv[1] if len(dv) > 1 else vals[1]))
                else:
                    f2 = Frame(self.I, fr.body, fr.fid, st2, fr.depth)
                    outs.extend(self.apply(f2, vals[1], [] if is_opt else [e[3][0] if e[3] else TOP], line))
            return outs
        if is_res and name in ("and_then", "map", "map_err", "unwrap_or_else"):
            outs = []
            for st2, e in self.split_enum(fr, dv[0], ["Ok", "Err"]):
                f2 = Frame(self.I, fr.body, fr.fid, st2, fr.depth)
                if name == "and_then":
                    if e[2] == "Ok":
                        outs.extend(self.apply(f2, vals[1], [e[3][0] if e[3] else TOP], line))
                    else:
                        outs.append((st2, e))
                elif name == "map":
                    if e[2] == "Ok":
                        for st3, r in self.apply(f2, vals[1], [e[3][0] if e[3] else TOP], line):
                            outs.append((st3, ("enum", "Result", "Ok", (r,))))
                    else:
                        outs.append((st2, e))
                elif name == "map_err":
                    if e[2] == "Err":
                        for st3, r in self.apply(f2, vals[1], [e[3][0] if e[3] else TOP], line):
                            outs.append((st3, ("enum", "Result", "Err", (r,))))
                    else:
                        outs.append((st2, e))
                else:
                    if e[2] == "Ok":
                        outs.append((st2, e[3][0] if e[3] else TOP))
                    else:
                        outs.extend(self.apply(f2, vals[1], [e[3][0] if e[3] else TOP], line))
            return outs
        if is_res and name in ("unwrap", "expect"):
            outs = []
            for st2, e in self.split_enum(fr, dv[0], ["Ok", "Err"]):
                if e[2] == "Ok":
                    outs.append((st2, e[3][0] if e[3] else TOP))
            return outs

        # ---- clone / conversions
        if (trait == "std::clone::Clone" and name == "clone") or name in ("borrow", "deref", "as_ref", "to_owned"):
            v = dv[0]
            return [(st, strip_token(v) if name == "clone" else v)]
        if trait in ("std::convert::Into", "std::convert::From") and name in ("into", "from"):
            return [(st, vals[0])]
        if name == "size_of" and "mem::size_of" in path:
            return [(st, ("sym", ("size_of", tuple(f.get("args", [])))))]

        # ---- checkpoint / cursor accessors
        if self_ty.startswith("input::Checkpoint") and name == "cursor":
            v = dv[0]
            if isinstance(v, tuple) and v[0] == "ckpt":
                return [(st, ("cursor", v[1]))]
            return [(st, TOP)]
        if self_ty.startswith("input::Cursor") and name == "inner":
            return [(st, dv[0])]

        # ---- comparisons on opaque ordered values
        if trait in ("std::cmp::PartialOrd", "std::cmp::PartialEq", "std::cmp::Ord") and name in ("lt", "le", "gt", "ge", "eq", "ne", "cmp"):
            if name in ("eq", "ne") and all(isinstance(x, tuple) and x[0] == "enum" and x[1] == "Option" for x in dv[:2]):
                # two known Option shapes: different variants decide the comparison; Some(a) vs Some(b) compares the payloads
                x, y = dv[0], dv[1]
                if x[2] != y[2]:
                    return [(st, ("bool", name == "ne"))]
                if x[2] == "None":
                    return [(st, ("bool", name == "eq"))]
            a, b = term_of(dv[0]), term_of(dv[1])
            if name == "cmp":
                return [(st, ("sym", ("cmp", a, b)))]
            op = {"lt": "Lt", "le": "Le", "gt": "Gt", "ge": "Ge", "eq": "Eq", "ne": "Ne"}[name]
            t, pol = norm_cmp(op, a, b)
            return [(st, ("sym", t) if pol else ("sym", ("not", t)))]
        if name == "cursor_location" and trait == "input::Input":
            v = dv[0]
            return [(st, ("sym", ("loc", term_of(v))))]
        if "cmp::Ordering" in self_ty and name in ("is_eq", "is_ne", "is_lt", "is_gt", "is_le", "is_ge"):
            return [(st, ("sym", (name, term_of(dv[0]))))]

        # ---- iteration
        if name in ("into_iter", "iter", "iter_mut") and (trait in ("std::iter::IntoIterator",) or "slice" in path or "[T]" in path or "Vec" in path):
            if isinstance(dv[0], tuple) and dv[0][0] == "iter":
                return [(st, dv[0])]
            return [(st, ("iter", term_of(dv[0]), False))]
        if trait == "std::iter::Iterator" and name == "next":
            tgt = vals[0]
            it = dv[0]
            src = it[1] if isinstance(it, tuple) and it[0] == "iter" else ("?",)
            advanced = it[2] if isinstance(it, tuple) and it[0] == "iter" else True
            outs = []
            def _unmem(t_):
                # `&[A]` vs `[A]`: the same sequence whether the slice was reached through one more reference or not
                while isinstance(t_, tuple) and len(t_) == 2 and t_[0] == "mem":
                    t_ = t_[1]
                return t_
            nonempty = any(isinstance(ft, tuple) and len(ft) == 2 and ft[0] == "is_empty" and _unmem(ft[1]) == _unmem(src) and fp is False
                           for ft, fp in st.facts)
            s_some = st.copy()
            if isinstance(tgt, tuple) and tgt[0] == "ref":
                Frame(self.I, fr.body, fr.fid, s_some, fr.depth).write_lv(tgt[1], ("iter", src, True))
            self.invalidate(s_some, ("sym", ("elem", src)))
            outs.append((s_some, ("enum", "Option", "Some", (("sym", ("elem", src)),))))
            if not (nonempty and not advanced):
                outs.append((st.copy(), ("enum", "Option", "None", ())))
            return outs
        if name == "is_empty":
            return [(st, ("sym", ("is_empty", term_of(dv[0]))))]
        if trait == "std::iter::Iterator" and name in ("zip", "map", "enumerate", "rev", "chain", "take", "by_ref"):
            return [(st, dv[0] if isinstance(dv[0], tuple) and dv[0][0] == "iter" else ("iter", term_of(dv[0]), False))]
        if trait == "std::iter::Iterator" and name in ("try_fold", "fold") and len(vals) == 3:
            return self.fold(fr, vals, name, dest_ty, line)
        if trait == "std::iter::Iterator" and name in ("try_for_each", "for_each", "try_fold", "find_map"):
            return self.iterate(fr, vals, name, line)

        # ---- memo table
        if "HashMap" in path or "hash_map" in path or "hashbrown" in path or "hashbrown" in rpath or "HashMap" in self_ty:
            for v in vals:
                if has_token(v):
                    self.token_lost(fr, v, "moved into the memo table (%s)" % name, "alt", line)
            what = name
            if name == "insert" and len(vals) >= 2:
                what = "insert %s" % describe(self.deref_val(fr, vals[-1])).replace(" ", "")
            st.ev("memo", what, line)
            self.I.memo_ops.append((fr.body, name, [describe(v) for v in vals], line, st))
            if name == "entry":
                return [(st, ("sym", ("memo_entry",)))]
            if name == "get":
                return [(st, ("sym", ("memo_get",)))]
            return [(st, ("sym", ("memo", name, line)))]

        # ---- errors helper
        if name == "secondary_errors_since":
            # which emissions the returned tail covers: the sites that may have emitted since the checkpoint whose err_count is
            # passed (i.errs - checkpoint.errs).  `secondary_errors_since(before.err_count)` with `before` saved one stage too
            # early widens the tail (seed C08-13: the retry filter of skip_then_retry_until counting the skip parser's emissions).
            tail = None
            if len(dv) > 1 and isinstance(dv[1], tuple) and dv[1][0] == "errcount" and isinstance(dv[1][1], frozenset):
                for v in dv:
                    if isinstance(v, tuple) and v[0] in ("errors", "inp") and isinstance(v[1], int) and v[1] < len(st.inps):
                        tail = ("tail", ",".join(sorted(set(str(x[0]) for x in st.inps[v[1]].errs - dv[1][1]))) or "none")
                        break
            return [(st, ("sym", ("secondary_since", tail if tail is not None else (term_of(dv[1]) if len(dv) > 1 else ("?",)))))]

        return self.unknown(fr, f, vals, dv, argtys, dest_ty, line)

    def unknown(self, fr, f, vals, dv, argtys, dest_ty, line):
        st = fr.st
        path = f["path"]
        for v in list(vals) + list(dv):
            if isinstance(v, tuple) and v[0] in ("inp", "errors", "slotref", "secref"):
                if not self.I.spec.pure_callee(f):
                    # a private helper of the crate that is handed the parser input (an extracted `fn fail_with(inp, ..)`):
                    # interpret its body in place -- the caller's automaton is the same as with the code written inline
                    cb = self.local_body_of(f)
                    if cb is not None and fr.depth < 4 and cb is not fr.body and cb is not getattr(self.I, "cur_root", None):
                        self.I.stats["helpers_inlined"] = self.I.stats.get("helpers_inlined", 0) + 1
                        self.I.__dict__.setdefault("inlined_helpers", set()).add(cb["key"])
                        return self.I.run_body(cb, list(vals), fr.st, fr.depth + 1)
                    raise AnalysisError("unmodelled callee %s receives the parser input (unknown effect) in %s line %s"
                                        % (path, fr.body["uname"], line))
        for v in vals:
            if has_token(v):
                if self.I.spec.token_transparent(f):
                    return [(st, v)]
                self.token_lost(fr, v, "moved into %s" % f["name"], f["name"], line)
        if f["name"] in ("fold", "rfold", "try_fold", "try_rfold", "rev"):
            st.ev("order", f["name"])
        if f["name"] in ("pop", "pop_back") and ("Vec" in (f.get("self_ty") or "") or "Vec" in path):
            st.ev("order", "rfold")        # `while let Some(x) = v.pop()` consumes the collected items back to front, like rfold
        if f["name"] in ("push", "push_back", "insert", "extend", "push_front"):
            for v in vals[1:]:
                for tag in self.cursor_tags(fr, v):
                    st.ev("stash", f["name"], self.desc_tag(st, tag))
        # `Default::default()` of a local type / of Option: evaluate (derived impls are plain aggregates of defaults)
        if f["name"] == "default" and (f.get("trait") or "") == "std::default::Default" and not vals:
            sty = f.get("self_ty", "")
            if sty.startswith("std::option::Option<"):
                return [(st, ("enum", "Option", "None", ()))]
            if sty == "bool":
                return [(st, ("bool", False))]
            cb = self.local_body_of(f)
            if cb is not None and fr.depth < 4 and getattr(self.I, "inline_self_root", None) is not None:
                return self.I.run_body(cb, [], fr.st, fr.depth + 1)
        # a small private pure helper of the crate (`fn postfix_power(bp) -> u32 { Left(bp).right_power() }`): interpret it in place so
        # that guards speak about what it computes, not about its name.  The binding-power functions themselves stay opaque terms
        # (their arithmetic is AFFINE's business and the contracts name them).
        if f.get("krate") == "chumsky" and f["name"] not in ("left_power", "right_power") and fr.depth < 4 \
                and re.match(r"^(u8|u16|u32|u64|u128|usize|i8|i16|i32|i64|i128|isize|bool)$", dest_ty or "") \
                and not any(isinstance(v, tuple) and v and v[0] in ("inp", "errors", "slotref", "secref") for v in list(vals) + list(dv)):
            cb = self.local_body_of(f)
            if cb is not None and not cb.get("public") and not cb.get("impl_trait") and not cb.get("in_trait") and cb is not fr.body \
                    and len(cb["blocks"]) <= 16 and not mirq.loops(cb) and cb["kind"] != "Closure" \
                    and cb is not getattr(self.I, "cur_root", None):
                try:
                    res_ = self.I.run_body(cb, list(vals), fr.st, fr.depth + 1)
                    if res_:
                        return res_
                except AnalysisError:
                    pass
        self.I.unknown_callees[path] = self.I.unknown_callees.get(path, 0) + 1
        if dest_ty == "()":
            return [(st, UNIT)]
        if dest_ty == "!":
            return []
        if dest_ty == "bool":
            return [(st, ("sym", ("call", f["name"], tuple(term_of(x) for x in dv))))]
        tnt = frozenset()
        for v in dv:
            tnt |= taint_of(v)
        if tnt:
            return [(st, ("out", tnt))]
        return [(st, ("sym", ("call", f["name"], tuple(term_of(x) for x in dv))))]

    # ------------------------------------------------------------------ small utilities
    def payload(self, v, variant):
        if isinstance(v, tuple) and v[0] == "sym":
            return ("sym", ("field", ("downcast", v[1], variant), "0"))
        return TOP

    def split_enum(self, fr, v, variants, refine_target=None):
        """Yield (state, enum-value) for each feasible variant of `v`."""
        st = fr.st
        if isinstance(v, tuple) and v[0] == "enum":
            return [(st, v)]
        if isinstance(v, tuple) and v[0] == "optalt":
            if v[2] == "S":
                return [(st, ("enum", "Option", "Some", (("located", v[1], v[3] if len(v) > 3 else None),)))]
            if v[2] == "N":
                return [(st, ("enum", "Option", "None", ()))]
            return [(st.copy(), ("enum", "Option", "Some", (("located", v[1], v[3] if len(v) > 3 else None),))),
                    (st.copy(), ("enum", "Option", "None", ()))]
        outs = []
        kind = "Result" if variants[0] == "Ok" else "Option"
        for var in variants:
            s2 = st.copy()
            if isinstance(v, tuple) and v[0] == "sym":
                t = ("discr", v[1])
                bad = False
                for ft, fp in s2.facts:
                    if ft == t and fp != var:
                        bad = True
                if bad:
                    continue
                s2.facts = add_fact(s2.facts, (t, var))
                pl = (("sym", ("field", ("downcast", v[1], var), "0")),) if var in ("Some", "Ok", "Err") else ()
            else:
                pl = (TOP,) if var in ("Some", "Ok", "Err") else ()
            outs.append((s2, ("enum", kind, var, pl)))
        return outs

    def split_bool(self, fr, st, v, line):
        if isinstance(v, tuple) and v[0] == "bool":
            return [(st, v[1])]
        if isinstance(v, tuple) and v[0] == "sym":
            t0, pol = v[1], True
            while t0[0] == "not":
                t0, pol = t0[1], not pol
            outs = []
            for b in (True, False):
                fp = b if pol else (not b)
                if any(ft == t0 and k != fp for ft, k in st.facts) or contradicts(st.facts, t0, fp):
                    continue
                s2 = st.copy()
                s2.facts = add_fact(s2.facts, (t0, fp))
                s2.ev("branch", repr_term(t0), fp, line)
                outs.append((s2, b))
            return outs
        return [(st.copy(), True), (st.copy(), False)]

    def apply(self, fr, fv, args, line):
        """Apply a function value (closure / fn item / user fn) to args."""
        cv = self.deref_val(fr, fv)
        if isinstance(cv, tuple) and cv[0] == "closure":
            return fr.call_closure(cv, args, line)
        if isinstance(cv, tuple) and cv[0] == "fnitem":
            f = cv[1]
            if f["kind"].startswith("Ctor"):
                nm = f["name"]
                if nm in ("Some", "Ok", "Err"):
                    return [(fr.st, ("enum", "Option" if nm == "Some" else "Result", nm, tuple(args)))]
                return [(fr.st, mk_struct({str(i): a for i, a in enumerate(args)}))]
            return self.direct(fr, f, args, [None] * len(args), "?", line, None)
        return self.user_call(fr, fv, args, [], "?", line)

    def fold(self, fr, vals, name, dest_ty, line):
        """fold / try_fold(init, |acc, x| ..): zero or more applications of the closure threading the accumulator; try_fold stops at
        the first Break / Err / None the closure returns and wraps the final accumulator in Continue / Ok / Some otherwise."""
        cl = vals[2]
        itv = self.deref_val(fr, vals[0])
        src = itv[1] if isinstance(itv, tuple) and itv[0] == "iter" else term_of(itv)
        elem = ("sym", ("elem", src))
        cf = "ControlFlow" in (dest_ty or "")
        opt = (dest_ty or "").startswith("std::option::Option")

        def done(acc):
            if name == "fold":
                return acc
            if cf:
                return ("enum", "ControlFlow", "Continue", (acc,))
            if opt:
                return ("enum", "Option", "Some", (acc,))
            return ("enum", "Result", "Ok", (acc,))
        results = []
        seen = set()
        work = [(fr.st.copy(), vals[1])]
        n = 0
        while work:
            s, acc = work.pop()
            k = (s.key(fr.fid), repr(acc)[:200])
            if k in seen:
                continue
            seen.add(k)
            n += 1
            if n > 200:
                raise AnalysisError("fold: state budget exceeded in %s" % fr.body["uname"])
            results.append((s.copy(), done(acc)))
            f2 = Frame(self.I, fr.body, fr.fid, s.copy(), fr.depth)
            for s2, r in self.apply(f2, cl, [acc, elem], line):
                if name == "fold":
                    work.append((s2, r))
                    continue
                if isinstance(r, tuple) and r[0] == "enum":
                    if r[2] in ("Break", "Err", "None"):
                        results.append((s2, r))
                    else:
                        work.append((s2, r[3][0] if r[3] else TOP))
                else:
                    f3 = Frame(self.I, fr.body, fr.fid, s2, fr.depth)
                    names = ["Continue", "Break"] if cf else (["Some", "None"] if opt else ["Ok", "Err"])
                    for s3, e in self.split_enum(f3, r, names):
                        if e[2] in ("Break", "Err", "None"):
                            results.append((s3, e))
                        else:
                            work.append((s3, e[3][0] if e[3] else TOP))
        return results

    def iterate(self, fr, vals, name, line):
        """try_for_each / for_each / find_map: zero or more applications of the closure (fixpoint over states)."""
        cl = vals[-1]
        results = []
        seen = set()
        work = [fr.st.copy()]
        itv = self.deref_val(fr, vals[0])
        src = itv[1] if isinstance(itv, tuple) and itv[0] == "iter" else term_of(itv)
        elem = ("sym", ("elem", src))

        def _unmem(t_):
            while isinstance(t_, tuple) and len(t_) == 2 and t_[0] == "mem":
                t_ = t_[1]
            return t_
        advanced0 = itv[2] if isinstance(itv, tuple) and itv[0] == "iter" and len(itv) > 2 else False
        nonempty = (not advanced0) and any(isinstance(ft, tuple) and len(ft) == 2 and ft[0] == "is_empty" and _unmem(ft[1]) == _unmem(src)
                                           and fp is False for ft, fp in fr.st.facts)
        first = True
        while work:
            s = work.pop()
            k = s.key(fr.fid)
            if k in seen:
                continue
            seen.add(k)
            # exit with Continue/Ok(()) (find_map: exhausted without a hit) - not before the first application when the sequence
            # is known to be non-empty (the same refinement the explicit `for` loop gets from Iterator::next)
            was_first, first = first, False
            if was_first and nonempty:
                pass
            elif name == "find_map":
                results.append((s.copy(), ("enum", "Option", "None", ())))
            else:
                results.append((s.copy(), ("enum", "Result", "Ok", (UNIT,)) if name.startswith("try") else UNIT))
            f2 = Frame(self.I, fr.body, fr.fid, s.copy(), fr.depth)
            for s2, r in self.apply(f2, cl, [elem], line):
                if name == "find_map":
                    f3 = Frame(self.I, fr.body, fr.fid, s2, fr.depth)
                    for s3, e in self.split_enum(f3, r, ["Some", "None"]):
                        if e[2] == "Some":
                            results.append((s3, e))
                        else:
                            work.append(s3)
                    continue
                if name.startswith("try"):
                    if isinstance(r, tuple) and r[0] == "enum" and r[2] in ("Err", "Break", "None"):
                        results.append((s2, r))
                        continue
                work.append(s2)
        return results

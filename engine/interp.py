"""Path-sensitive typestate / provenance analysis of chumsky's InputRef protocol over MIR.

This is an abstract interpreter with *finite* abstract domains (no inputs, no concrete
values, no solver).  For one MIR body it explores every CFG path (normal edges only) with
trace partitioning on enum discriminants / booleans, tracking

  pos    symbolic cursor tag of the input:   E | S(site) | X(site) | T(site) | R(...)
  errs   set of contributors to `errors.secondary` since entry
  slot   `errors.alt`: (holds the entry token?, N/S/M = none/some/maybe)
  env    abstract values of locals (checkpoints, cursors, taken alts, child outputs (taint),
         closures, symbolic scalars with normalised guard facts)

Calls are interpreted by the model table (models.py).  Closures are interpreted inline.
Exploration terminates because every domain is finite and (block, state) pairs are memoised.
"""
import itertools
import re

TOP = ("top",)
UNIT = ("unit",)
MOVED = ("moved",)


class AnalysisError(Exception):
    """Fail-closed condition of the analyser itself (unknown effect, budget)."""


# ------------------------------------------------------------------ input state

class Inp:
    __slots__ = ("pos", "errs", "tok", "some", "truncated", "kind", "emits", "altkeep")

    def __init__(self, pos=("E",), errs=frozenset(), tok=True, some="M", truncated=frozenset(), kind="outer",
                 emits=(), altkeep=frozenset()):
        self.pos = pos
        self.errs = errs
        self.tok = tok
        self.some = some
        self.truncated = truncated
        self.kind = kind
        self.emits = emits
        self.altkeep = altkeep

    def copy(self):
        return Inp(self.pos, self.errs, self.tok, self.some, self.truncated, self.kind, self.emits, self.altkeep)

    def key(self):
        return (self.pos, self.errs, self.tok, self.some, self.truncated, self.kind, self.emits, self.altkeep)


def add_fact(facts, fact):
    """Add a guard fact; facts over widened / very deep terms are dropped (widening)."""
    t = fact[0]
    if term_depth(t) > 11 or "widened" in repr(t):
        return facts
    if len(facts) > 40:
        return facts
    return facts | {fact}


class State:
    __slots__ = ("frames", "inps", "mem", "facts", "trace", "flags", "last", "seg")

    def __init__(self):
        self.frames = {}
        self.inps = [Inp()]
        self.mem = {}
        self.facts = frozenset()
        self.trace = ()
        self.flags = frozenset()
        self.last = ("ENTRY", None, ("E",))   # last protocol node: (node, result, cursor tag before it)
        self.seg = ()                          # effects since that node

    def copy(self):
        s = State()
        s.frames = {k: dict(v) for k, v in self.frames.items()}
        s.inps = [i.copy() for i in self.inps]
        s.mem = dict(self.mem)
        s.facts = self.facts
        s.trace = self.trace
        s.flags = self.flags
        s.last = self.last
        s.seg = self.seg
        return s

    def key(self, fid):
        fr = self.frames[fid]
        return (tuple(sorted(fr.items())), tuple(i.key() for i in self.inps), tuple(sorted(self.mem.items())),
                self.facts, self.flags, self.last, self.seg)

    def inp(self, n=None):
        return self.inps[-1 if n is None else n]

    SEG_KINDS = {"emit": 1, "add_alt": 3, "add_alt_err": 2, "memwrite": 2, "memo": 1, "rewind_input": 0,
                 "cap": 3, "stash": 2, "oparg": 2, "uarg": 1, "order": 1}

    def ev(self, *e):
        self.trace = self.trace + (e,)
        k = e[0]
        if k in self.SEG_KINDS:
            n = self.SEG_KINDS[k]
            item = (k,) + tuple(str(x) for x in e[1:1 + n])
            if self.seg.count(item) < 2:     # bounded: a loop cannot grow the segment without limit
                self.seg = self.seg + (item,)


# ------------------------------------------------------------------ helpers on values

def has_token(v):
    """Does the abstract value (transitively) hold the linear entry-alt token?"""
    if not isinstance(v, tuple):
        return False
    k = v[0]
    if k == "optalt":
        return v[1] and v[2] != "N"
    if k in ("located", "alterr"):
        return bool(v[1])
    if k == "struct":
        return any(has_token(x) for _, x in v[1])
    if k == "enum":
        return any(has_token(x) for x in v[3])
    if k == "closure":
        return any(has_token(x) for x in v[2])
    return False


def strip_token(v):
    if not isinstance(v, tuple):
        return v
    k = v[0]
    if k == "optalt":
        return ("optalt", False, v[2]) + v[3:]
    if k in ("located", "alterr"):
        return (k, False) + v[2:]
    if k == "struct":
        return ("struct", tuple((n, strip_token(x)) for n, x in v[1]))
    if k == "enum":
        return ("enum", v[1], v[2], tuple(strip_token(x) for x in v[3]))
    if k == "closure":
        return ("closure", v[1], tuple(strip_token(x) for x in v[2]))
    return v


def taint_of(v):
    if not isinstance(v, tuple):
        return frozenset()
    k = v[0]
    if k == "out":
        return v[1]
    if k == "struct":
        r = frozenset()
        for _, x in v[1]:
            r |= taint_of(x)
        return r
    if k == "enum":
        r = frozenset()
        for x in v[3]:
            r |= taint_of(x)
        return r
    if k == "closure":
        r = frozenset()
        for x in v[2]:
            r |= taint_of(x)
        return r
    if k == "ref":
        return frozenset()
    return frozenset()


CLOSURE_DIGESTS = {}


def closure_digest(facts, key, depth=0):
    """Order- and name-insensitive digest of a closure body: the callees it uses and the literal constants it
    mentions (nested closures included).  Two predicates with the same digest are treated as the same guard."""
    if key in CLOSURE_DIGESTS:
        return CLOSURE_DIGESTS[key]
    b = facts.by_key.get(key)
    items = set()
    if b is not None:
        for bl in b["blocks"]:
            if bl["cleanup"]:
                continue
            for st in bl["stmts"]:
                if st["k"] != "assign":
                    continue
                rv = st["rv"]
                for o in [rv.get("op"), rv.get("a"), rv.get("b")] + list(rv.get("ops") or []):
                    if isinstance(o, dict) and "k" in o and "val" in o["k"]:
                        v = o["k"]["val"].replace("const ", "").strip()
                        if v not in ("()", "false", "true") and not v.startswith("ZeroSized") and len(v) < 90:
                            items.add(v.split(":")[0] if v.startswith("promoted&") else v)
                if rv["k"] == "bin":
                    items.add(rv["op"])
                if rv["k"] == "agg" and rv.get("ak") == "closure" and depth < 3:
                    items.add("fn<" + closure_digest(facts, rv["closure_key"], depth + 1) + ">")
            t = bl["term"]
            if t["k"] == "call":
                f = t["func"].get("k", {}).get("fn")
                if f is not None:
                    items.add(f["name"])
                for a in t["args"]:
                    o = a["op"]
                    if "k" in o and "val" in o["k"]:
                        v = o["k"]["val"].replace("const ", "").strip()
                        if v not in ("()", "false", "true") and len(v) < 90:
                            items.add(v.split(":")[0] if v.startswith("promoted&") else v)
            if t["k"] == "switch":
                for v, _ in t["targets"]:
                    if v not in (0, 1):
                        items.add("case%s" % v)
    items = {re.sub(r"promoted&\[([0-9a-f]*)\]\+\d+", r"lit(\1)", x) for x in items}
    d = "+".join(sorted(x.replace(" ", "").replace("{", "<").replace("}", ">") for x in items))
    CLOSURE_DIGESTS[key] = d
    return d


def term_of(v):
    """Symbolic term of a scalar-ish value for guard facts."""
    if not isinstance(v, tuple):
        return ("?",)
    if v[0] == "closure":
        return ("fn", CLOSURE_DIGESTS.get(v[1], "?"))
    if v[0] == "fnitem":
        # a function item used as a predicate is the predicate that only calls it: `I::Token::is_whitespace` == `|c| c.is_whitespace()`
        f = v[1]
        return ("fn", f.get("name", "?") if isinstance(f, dict) else str(f).split("::")[-1])
    if v[0] == "sym":
        return v[1]
    if v[0] == "const":
        return ("const", v[2])
    if v[0] == "bool":
        return ("const", "true" if v[1] else "false")
    if v[0] == "enum" and v[1] == "Option" and v[2] == "Some" and len(v[3]) == 1 and isinstance(v[3][0], tuple) and v[3][0][0] == "const":
        return ("Some", ("const", v[3][0][2]))
    if v[0] == "cursor":
        return ("cursor", v[1])
    if v[0] == "altpos":
        return ("altpos", v[1])
    if v[0] == "ckpt":
        return ("ckpt", v[1])
    return ("abs",) + tuple(str(x) for x in v[:2])


def norm_cmp(op, a, b):
    """Normalise a comparison to (term, polarity) over {Lt, Eq}."""
    if op == "Lt":
        return (("Lt", a, b), True)
    if op == "Ge":
        return (("Lt", a, b), False)
    if op == "Gt":
        return (("Lt", b, a), True)
    if op == "Le":
        return (("Lt", b, a), False)
    if op == "Eq":
        x, y = sorted([a, b], key=repr)
        return (("Eq", x, y), True)
    if op == "Ne":
        x, y = sorted([a, b], key=repr)
        return (("Eq", x, y), False)
    return ((op, a, b), True)


def _is_zero_term(t):
    return isinstance(t, tuple) and t and t[0] == "const" and str(t[1]).split("_")[0] == "0"


def canon_atom(t, pol):
    """Canonical (term, polarity) of a guard fact for contradiction checks: unsigned `0 < x` == !(x == 0)."""
    if isinstance(t, tuple) and t:
        if t[0] == "Lt" and _is_zero_term(t[1]):
            return (("Eq0", t[2]), not pol)
        if t[0] == "Eq" and _is_zero_term(t[1]):
            return (("Eq0", t[2]), pol)
        if t[0] == "Eq" and _is_zero_term(t[2]):
            return (("Eq0", t[1]), pol)
    return (t, pol)


def contradicts(facts, t, pol):
    """Is the fact (t, pol) inconsistent with the known facts?"""
    a, ap = canon_atom(t, pol)
    for (ft, fp) in facts:
        b, bp = canon_atom(ft, fp)
        if a == b and ap != bp:
            return True
        # a<b and b<a / a<b and a==b cannot both hold
        if isinstance(a, tuple) and isinstance(b, tuple) and a and b and ap and bp:
            if a[0] == "Lt" and b[0] == "Lt" and a[1] == b[2] and a[2] == b[1]:
                return True
            if a[0] == "Lt" and b[0] == "Eq" and {a[1], a[2]} == {b[1], b[2]}:
                return True
            if a[0] == "Eq" and b[0] == "Lt" and {a[1], a[2]} == {b[1], b[2]}:
                return True
    return False


def mk_struct(d):
    return ("struct", tuple(sorted(d.items())))


def struct_get(v, name):
    for n, x in v[1]:
        if n == name:
            return x
    return None


def struct_set(v, name, val):
    d = dict(v[1])
    d[name] = val
    return mk_struct(d)


# ------------------------------------------------------------------ interpreter

class Violation:
    def __init__(self, rule, fn, instance, detail, trace=(), line=None, file=None):
        self.rule = rule
        self.fn = fn
        self.instance = instance
        self.detail = detail
        self.trace = trace
        self.line = line
        self.file = file

    @property
    def key(self):
        return "%s|%s|%s" % (self.rule, self.fn, self.instance)

    def __repr__(self):
        return "<%s %s:%s %s>" % (self.key, self.file, self.line, self.detail)


class Exit:
    """Summary of one explored path reaching a return of the analysed body."""
    __slots__ = ("cls", "pos", "errs", "tok", "some", "facts", "taint", "trace", "truncated", "ret", "emits",
                 "flags", "tok_sunk", "mem")

    def key(self):
        return (self.cls, self.pos, self.errs, self.tok, self.some, self.facts, self.taint, self.truncated,
                self.emits, self.flags)


class Interp:
    MAX_STATES = 60000

    def __init__(self, facts, models):
        self.facts = facts
        self.models = models
        self.violations = []
        self.notes = []
        self.stats = {"bodies": 0, "states": 0, "calls": 0, "paths": 0, "closures_inlined": 0}
        self._fid = itertools.count(1)
        self.cur_root = None
        self.unknown_callees = {}
        self.spec = None
        for b_ in facts.bodies:
            if b_["kind"] == "Closure":
                closure_digest(facts, b_["key"])
        self.edges = {}      # root uname -> set of edges
        self.inlined = set()  # keys of closure bodies interpreted inline
        self.reset_logs()

    def reset_logs(self):
        self.mode_calls = []
        self.captures = []
        self.child_calls = []
        self.alt_adds = []
        self.rewinds = []
        self.ctx_calls = []
        self.nested = []
        self.unwrap_sites = []
        self.memo_ops = []

    # -------------------------------------------------------------- reporting
    MAX_BODY_VIOLATIONS = 30

    def violate(self, rule, instance, detail, st, line=None, body=None):
        b = body or self.cur_root
        v = Violation(rule, self.cur_root["uname"], instance, detail, st.trace if st is not None else (),
                      line, b["file"])
        self.violations.append(v)
        self.body_viol = getattr(self, "body_viol", 0) + 1

    # -------------------------------------------------------------- body-level entry
    def analyse(self, body, entry=None):
        """Explore `body`; returns list of Exit summaries."""
        self.cur_root = body
        self.stats["bodies"] += 1
        self.body_states = 0
        self.body_viol = 0
        st = State()
        if entry:
            entry(st)
        args = []
        for i in range(1, body["arg_count"] + 1):
            args.append(self.initial_arg(body, i))
        outs = self.run_body(body, args, st, depth=0)
        exits = []
        seen = set()
        for s, rv in outs:
            self.record_edge(s, ("EXIT", self.classify(rv)), s.inp(0).pos, s.inp(0))
            e = Exit()
            e.cls = self.classify(rv)
            inp = s.inp(0)
            e.pos, e.errs, e.tok, e.some = inp.pos, inp.errs, inp.tok, inp.some
            e.truncated = inp.truncated
            e.emits = inp.emits
            e.facts = s.facts
            e.taint = taint_of(rv)
            e.trace = s.trace
            e.ret = rv
            e.flags = s.flags
            e.mem = dict(s.mem)
            k = e.key()
            self.stats["paths"] += 1
            if k in seen:
                continue
            seen.add(k)
            exits.append(e)
        return exits

    def record_edge(self, st, dst, pos, inp=None, inner=False):
        """Edge of the body's abstract automaton: (last node, its result) --facts/effects--> dst at cursor tag pos."""
        node, res, pb = st.last
        descs = set()
        if pos == ("E",):
            descs.add("E")
        if pos[0] == "P":
            descs.add(pos[1])
        if pos == pb and node != "ENTRY":
            descs.add("before")
        if pos[0] == "S":
            descs.add("after(%s)" % (pos[1][0],))
        if pos[0] == "T":
            descs.add("read")
        if pos[0] == "X":
            descs.add("poisoned")
        if pos[0] == "W":
            descs.add("written")
        if inner:
            descs = {"inner:" + d for d in descs}
        edge = (node, res, dst, frozenset(descs), st.seg, st.facts)
        self.edges.setdefault(self.cur_root["uname"], set()).add(edge)

    def initial_arg(self, body, i):
        l = body["locals"][i]
        ty = l["ty"]
        name = l.get("name") or ("p%d" % i)
        if "input::InputRef<" in ty and ty.startswith("&") and not ty.startswith("&&") and "InputRef<" in ty.split("(")[0]:
            if ty.startswith("&mut input::InputRef<") or ty.startswith("&input::InputRef<"):
                return ("inp", 0)
        if ty.startswith("&mut input::InputRef<") or ty.startswith("&input::InputRef<"):
            return ("inp", 0)
        if ty.startswith("&input::Checkpoint<") or ty.startswith("input::Checkpoint<"):
            return ("ckpt", ("P", name), frozenset(), name)
        if ty.startswith("&input::Cursor<") or ty.startswith("input::Cursor<"):
            return ("cursor", ("P", name))
        return ("sym", ("param", "self" if name == "self" else "arg%d" % i))

    @staticmethod
    def classify(rv):
        if isinstance(rv, tuple) and rv[0] == "enum":
            if rv[2] == "Ok":
                p = rv[3][0] if rv[3] else None
                if isinstance(p, tuple) and p[0] == "enum" and p[1] == "Option":
                    return "Ok(%s)" % p[2]
                return "Ok"
            if rv[2] == "Err":
                return "Err"
            return rv[2]
        if isinstance(rv, tuple) and rv[0] == "unit":
            return "unit"
        return "other"

    # -------------------------------------------------------------- frames
    def run_body(self, body, args, st, depth, closure_env=None):
        """Interpret `body` from `st`; returns [(state, retval)]."""
        if depth > 12:
            raise AnalysisError("closure inlining depth exceeded in %s" % body["uname"])
        fid = next(self._fid)
        env = {}
        for i, a in enumerate(args):
            env[i + 1] = a
        st = st.copy()
        st.frames[fid] = env
        results = []
        seen = set()
        work = [(0, st)]
        blocks = body["blocks"]
        while work:
            bbi, s = work.pop()
            k = (bbi, s.key(fid))
            if k in seen:
                continue
            seen.add(k)
            self.stats["states"] += 1
            self.body_states += 1
            if getattr(self, "body_viol", 0) >= self.MAX_BODY_VIOLATIONS:
                # the body is already reported many times over: exploring the states that follow a broken one only multiplies
                # cascading reports (and, for the 26-arity tuple families, the state count)
                work.clear()
                break
            if self.body_states > self.MAX_STATES:
                raise AnalysisError("state budget exceeded in %s" % self.cur_root["uname"])
            bl = blocks[bbi]
            s = s.copy()
            fr = Frame(self, body, fid, s, depth)
            ok = True
            for stmt in bl["stmts"]:
                fr.stmt(stmt)
            t = bl["term"]
            tk = t["k"]
            if tk == "goto":
                work.append((t["t"], s))
            elif tk == "ret":
                rv = s.frames[fid].get(0, UNIT)
                del s.frames[fid]
                results.append((s, rv))
            elif tk in ("unreachable", "resume", "terminate", "other", "tailcall"):
                pass
            elif tk == "assert":
                work.append((t["t"], s))
            elif tk == "drop":
                fr.drop(t["place"], bl["line"])
                work.append((t["t"], s))
            elif tk == "switch":
                for tgt, s2 in fr.switch(t, bl["line"]):
                    work.append((tgt, s2))
            elif tk == "call":
                if t["t"] is None:
                    # diverging call (panic etc.)
                    continue
                for s2 in fr.call(t, bl["line"]):
                    work.append((t["t"], s2))
            else:
                raise AnalysisError("unknown terminator %s" % tk)
        return results


class Frame:
    def __init__(self, interp, body, fid, st, depth):
        self.I = interp
        self.body = body
        self.fid = fid
        self.st = st
        self.depth = depth

    # ---------------------------------------------------------- lvalues
    def lv(self, place, st=None):
        st = st or self.st
        cur = ("local", self.fid, place["l"], ())
        for e in place["p"]:
            if e == "*":
                v = self.read_lv(cur, st)
                cur = self.deref(v)
            elif isinstance(e, dict) and "f" in e:
                nm = e["n"] if e.get("n") is not None else str(e["f"])
                cur = self.field(cur, nm)
            elif isinstance(e, dict) and "dc" in e:
                cur = self.field(cur, ("dc", e["dc"] if e["dc"] is not None else str(e["v"])))
            elif isinstance(e, dict) and ("i" in e or "ci" in e or "sub" in e):
                cur = self.field(cur, "[]")
            else:
                cur = cur  # opaque cast etc.
        return cur

    def deref(self, v):
        if isinstance(v, tuple):
            k = v[0]
            if k == "ref":
                return v[1]
            if k == "inp":
                return ("inp", v[1])
            if k == "errors":
                return ("errors", v[1])
            if k == "slotref":
                return ("slot", v[1])
            if k == "secref":
                return ("secondary", v[1])
            if k == "sym":
                return ("mem", v[1], ())
            if k in ("cursor", "ckpt", "located", "optalt", "out", "tok", "span") or (k == "enum" and v[1] == "Option" and v[3] and
                                                                                        isinstance(v[3][0], tuple) and v[3][0][0] == "const"):
                # reference-transparent abstract values (refs to them behave as the value)
                return ("val", v)
        return ("unknown",)

    def field(self, cur, nm):
        k = cur[0]
        if k == "local":
            return ("local", cur[1], cur[2], cur[3] + (nm,))
        if k == "mem":
            return ("mem", cur[1], cur[2] + (nm,))
        if k == "inp":
            return ("inpfield", cur[1], nm)
        if k == "errors":
            if nm == "alt":
                return ("slot", cur[1])
            if nm == "secondary":
                return ("secondary", cur[1])
            return ("unknown",)
        if k == "val":
            return ("val", self.proj_val(cur[1], nm))
        if k == "inpfield":
            # e.g. inp.cursor.<x>
            return ("unknown",)
        return ("unknown",)

    def proj_val(self, v, nm):
        """Project a field / downcast out of an abstract value."""
        if not isinstance(v, tuple):
            return TOP
        k = v[0]
        if isinstance(nm, tuple) and nm[0] == "dc":
            if k == "optalt":
                if nm[1] == "Some":
                    return ("enum", "Option", "Some", (("located", v[1], v[3] if len(v) > 3 else None),))
                return ("enum", "Option", "None", ())
            return v
        if k == "struct":
            x = struct_get(v, nm)
            return TOP if x is None else x
        if k == "enum":
            try:
                i = int(nm)
            except (TypeError, ValueError):
                return TOP
            return v[3][i] if i < len(v[3]) else TOP
        if k == "sym":
            return ("sym", ("field", v[1], nm))
        if k == "located":
            if nm == "pos":
                return ("altpos", v[2])
            if nm == "err":
                return ("alterr", v[1], v[2])
        if k == "ckpt":
            if nm == "cursor":
                return ("cursor", v[1])
            if nm == "err_count":
                return ("errcount", v[2])
            if nm == "inspector":
                return ("sym", ("ckpt_inspector", v[1]))
        if k == "cursor":
            if nm == "inner":
                return v
        if k == "closure":
            try:
                i = int(nm)
                return v[2][i]
            except (TypeError, ValueError, IndexError):
                return TOP
        if k == "moved":
            return MOVED
        return TOP

    def read_lv(self, lv, st=None):
        st = st or self.st
        k = lv[0]
        if k == "local":
            fr = st.frames.get(lv[1])
            if fr is None:
                return TOP
            v = fr.get(lv[2], TOP)
            for nm in lv[3]:
                v = self.proj_val(v, nm)
            return v
        if k == "mem":
            key = (lv[1], lv[2])
            if key in st.mem:
                return st.mem[key]
            # a prefix may have been written as a whole
            for n in range(len(lv[2]) - 1, -1, -1):
                pk = (lv[1], lv[2][:n])
                if pk in st.mem:
                    v = st.mem[pk]
                    for nm in lv[2][n:]:
                        v = self.proj_val(v, nm)
                    return v
            t = lv[1]
            for nm in lv[2]:
                t = ("field", t, nm)
            return ("sym", ("mem", t))
        if k == "inp":
            return ("inp", lv[1])
        if k == "inpfield":
            n, nm = lv[1], lv[2]
            if nm == "errors":
                return ("errors", n)
            if nm == "cursor":
                return ("cursor", st.inps[n].pos)
            if nm == "state":
                return ("sym", ("inp_state", n))
            if nm == "ctx":
                return ("sym", ("inp_ctx", n))
            if nm == "cache":
                return ("sym", ("inp_cache", n))
            if nm == "memos":
                return ("sym", ("inp_memos", n))
            return TOP
        if k == "errors":
            return ("errors", lv[1])
        if k == "slot":
            i = st.inps[lv[1]]
            return ("optalt", i.tok, i.some, ("slot", lv[1]))
        if k == "secondary":
            return ("secvec", lv[1])
        if k == "val":
            return lv[1]
        return TOP

    def write_lv(self, lv, val, line=None):
        st = self.st
        k = lv[0]
        val = cap_val(val)
        if k == "local":
            fr = st.frames.get(lv[1])
            if fr is None:
                return
            if not lv[3]:
                fr[lv[2]] = val
            else:
                fr[lv[2]] = self.set_path(fr.get(lv[2], TOP), lv[3], val)
            return
        if k == "mem":
            key = (lv[1], lv[2])
            for ok in list(st.mem):
                if ok[0] == lv[1] and ok[1][:len(lv[2])] == lv[2] and ok != key:
                    del st.mem[ok]
            st.mem[key] = val
            st.ev("memwrite", self.memname(lv), describe(val), line)
            return
        if k == "slot":
            self.write_slot(lv[1], val, line)
            return
        if k == "inpfield":
            if lv[2] == "cursor":
                self.I.models.cursor_write(self, lv[1], val, line)
            return
        # unknown / val: ignore
        return

    def memname(self, lv):
        return "%s.%s" % (repr_term(lv[1]), ".".join(str(x) for x in lv[2]))

    def set_path(self, v, path, val):
        nm = path[0]
        if len(path) == 1:
            new = val
        else:
            new = self.set_path(self.proj_val(v, nm), path[1:], val)
        if isinstance(nm, tuple) and nm[0] == "dc":
            # writing into a downcast: keep as is (enum payload update)
            if isinstance(v, tuple) and v[0] == "enum" and isinstance(new, tuple) and new[0] == "enum":
                return new
            return new if (isinstance(new, tuple) and new[0] == "enum") else v
        if isinstance(v, tuple) and v[0] == "struct":
            return struct_set(v, nm, new)
        if isinstance(v, tuple) and v[0] == "enum":
            try:
                i = int(nm)
                pl = list(v[3])
                while len(pl) <= i:
                    pl.append(TOP)
                pl[i] = new
                return ("enum", v[1], v[2], tuple(pl))
            except (TypeError, ValueError):
                return v
        if isinstance(v, tuple) and v[0] == "located":
            if nm == "err":
                tok = has_token(new) if isinstance(new, tuple) and new[0] == "alterr" else False
                return ("located", tok or (v[1] and False), v[2])
            return v
        return mk_struct({nm: new})

    def write_slot(self, n, val, line):
        i = self.st.inps[n]
        # the *old* content was dropped by a preceding Drop terminator (drop elaboration);
        # here we only install the new value.
        if isinstance(val, tuple) and val[0] == "optalt":
            i.tok, i.some = bool(val[1]) and val[2] != "N", val[2]
            if len(val) > 3 and isinstance(val[3], tuple) and val[3] and val[3][0] == "child":
                pass
        elif isinstance(val, tuple) and val[0] == "enum" and val[1] == "Option":
            if val[2] == "Some":
                i.tok, i.some = has_token(val), "S"
            else:
                i.tok, i.some = False, "N"
        else:
            i.tok, i.some = False, "M"
        self.st.ev("slot=", describe(val), line)

    # ---------------------------------------------------------- operands / rvalues
    def operand(self, o, line=None):
        if "c" in o:
            return self.read_lv(self.lv(o["c"]))
        if "m" in o:
            lv = self.lv(o["m"])
            v = self.read_lv(lv)
            if has_token(v):
                # a move transfers the linear token
                if lv[0] == "slot":
                    pass
                else:
                    self.write_lv(lv, strip_token(v))
            return v
        k = o["k"]
        if "fn" in k:
            return ("fnitem", k["fn"])
        val = k.get("val", "")
        ty = k.get("ty", "")
        if ty == "bool":
            return ("bool", val.strip() == "true" or val.strip() == "const true")
        if ty == "()":
            return UNIT
        v = val.replace("const ", "").strip()
        m = re.match(r"^promoted&\[01([0-9a-f]{2})\]\+0:&std::option::Option<u8>$", v)
        if m:      # a promoted `Some(b'x')` is the value `Some(x)`
            return ("enum", "Option", "Some", (("const", "u8", "%d_u8" % int(m.group(1), 16)),))
        # one spelling for the all-ones constant: `!0`, `u64::MAX`, `usize::MAX`, 18446744073709551615_u64
        m = re.match(r"^(\d+)_?([ui]\d+|usize)?$", v)
        if v.endswith("::MAX") or (m and ty in ("u8", "u16", "u32", "u64", "usize", "u128") and
                                   int(m.group(1)) == (1 << {"u8": 8, "u16": 16, "u32": 32, "u64": 64, "usize": 64, "u128": 128}[ty]) - 1):
            v = "MAX"
        return ("const", ty, v)

    def rvalue(self, r, line):
        k = r["k"]
        if k == "use":
            return self.operand(r["op"], line)
        if k in ("ref", "rawptr"):
            lv = self.lv(r["place"])
            return self.ref_of(lv)
        if k == "copyderef":
            return self.read_lv(self.lv(r["place"]))
        if k == "cast":
            v = self.operand(r["op"], line)
            if r["ck"].startswith("PointerCoercion") and isinstance(v, tuple) and v[0] == "fnitem":
                return v
            return v  # casts are transparent for our domains
        if k == "bin":
            a = self.operand(r["a"], line)
            b = self.operand(r["b"], line)
            op = r["op"]
            if op in ("Lt", "Le", "Gt", "Ge", "Eq", "Ne"):
                if a[0] == "bool" and b[0] == "bool" and op in ("Eq", "Ne"):
                    return ("bool", (a[1] == b[1]) == (op == "Eq"))
                t, pol = norm_cmp(op, term_of(a), term_of(b))
                return ("sym", t) if pol else ("sym", ("not", t))
            if op.endswith("WithOverflow"):
                base = op[:-len("WithOverflow")]
                return mk_struct({"0": ("sym", (base, term_of(a), term_of(b))), "1": ("bool", False)})
            if op in ("BitAnd", "BitOr") and a[0] == "bool" and b[0] == "bool":
                return ("bool", (a[1] and b[1]) if op == "BitAnd" else (a[1] or b[1]))
            return ("sym", (op.replace("Unchecked", ""), term_of(a), term_of(b)))
        if k == "un":
            a = self.operand(r["a"], line)
            if r["op"] == "Not":
                if a[0] == "bool":
                    return ("bool", not a[1])
                if a[0] == "const" and str(a[2]).split("_")[0] == "0":
                    return ("const", a[1], "MAX")
                t = term_of(a)
                if t[0] == "not":
                    return ("sym", t[1])
                return ("sym", ("not", t))
            return ("sym", (r["op"], term_of(a)))
        if k == "discr":
            lv = self.lv(r["place"])
            v = self.read_lv(lv)
            return ("discr", lv, tuple(tuple(x) for x in r["variants"]), r["of_ty"])
        if k == "agg":
            ops = [self.operand(o, line) for o in r["ops"]]
            ak = r["ak"]
            if ak == "tuple":
                if not ops:
                    return UNIT
                return mk_struct({str(i): v for i, v in enumerate(ops)})
            if ak == "array":
                return mk_struct({"[]": ops[0] if ops else TOP, "len": ("const", "usize", str(len(ops)))})
            if ak == "closure":
                return ("closure", r["closure_key"], tuple(ops))
            if ak == "adt":
                adt = r["adt"]
                short = adt.split("::")[-1]
                a = self.I.facts.adts.get(adt)
                is_enum = (a and a["kind"] == "enum") or short in ("Result", "Option", "ControlFlow", "Ordering")
                if is_enum:
                    if short == "Option" and ops and isinstance(ops[0], tuple) and ops[0][0] == "located":
                        return ("optalt", ops[0][1], "S", ops[0][2])
                    return ("enum", short, r["variant"], tuple(ops))
                return self.I.models.aggregate(self, adt, r, ops, line)
            return TOP
        if k == "repeat":
            return TOP
        return TOP

    def ref_of(self, lv):
        k = lv[0]
        if k == "inp":
            return ("inp", lv[1])
        if k == "errors":
            return ("errors", lv[1])
        if k == "slot":
            return ("slotref", lv[1])
        if k == "secondary":
            return ("secref", lv[1])
        if k == "inpfield":
            v = self.read_lv(lv)
            if lv[2] == "cursor":
                return ("ref", lv)
            if lv[2] in ("state", "ctx", "cache", "memos"):
                return ("ref", lv)
            return v
        if k == "val":
            return lv[1]
        if k == "unknown":
            return TOP
        return ("ref", lv)

    # ---------------------------------------------------------- statements
    def stmt(self, s):
        k = s["k"]
        if k == "assign":
            v = self.rvalue(s["rv"], s.get("line"))
            lv = self.lv(s["place"])
            self.write_lv(lv, v, s.get("line"))
        elif k == "setdiscr":
            pass
        elif k == "dead":
            fr = self.st.frames.get(self.fid)
            if fr is not None and s["l"] in fr:
                # StorageDead of a value still holding the token = leak without drop glue
                v = fr[s["l"]]
                if has_token(v):
                    self.I.models.token_lost(self, v, "storage-dead", self.local_name(s["l"]), None)
                del fr[s["l"]]

    def local_name(self, l):
        if l < 0:
            return "env"
        nm = self.body["locals"][l].get("name") if l < len(self.body["locals"]) else None
        return nm or ("_%d" % l)

    def place_name(self, place):
        s = self.local_name(place["l"])
        for e in place["p"]:
            if isinstance(e, dict) and "f" in e:
                s += "." + (e["n"] if e.get("n") is not None else str(e["f"]))
        return s

    # ---------------------------------------------------------- drop
    def drop(self, place, line):
        lv = self.lv(place)
        v = self.read_lv(lv)
        if lv[0] == "slot":
            i = self.st.inps[lv[1]]
            if i.tok and i.some != "N":
                self.I.models.token_lost(self, v, "slot-overwritten", "errors.alt", line)
            elif i.some != "N":
                self.I.models.alt_discarded(self, lv[1], line)
            i.tok, i.some = False, "N"
            return
        if has_token(v):
            self.I.models.token_lost(self, v, "dropped", self.place_name(place), line)
            self.write_lv(lv, strip_token(v))
        self.I.models.value_dropped(self, lv, v, self.place_name(place), line)

    # ---------------------------------------------------------- switch
    def switch(self, t, line):
        v = self.operand(t["op"], line)
        targets = [(int(a), int(b)) for a, b in t["targets"]]
        otherwise = t["otherwise"]
        out = []
        if v[0] == "bool":
            val = 1 if v[1] else 0
            for a, b in targets:
                if a == val:
                    return [(b, self.st)]
            return [(otherwise, self.st)]
        if v[0] == "const":
            try:
                val = int(v[2].split("_")[0])
                for a, b in targets:
                    if a == val:
                        return [(b, self.st)]
                return [(otherwise, self.st)]
            except ValueError:
                pass
        if v[0] == "discr":
            lv, variants, of_ty = v[1], v[2], v[3]
            cur = self.read_lv(lv)
            names = {int(d): n for d, n in variants}
            if isinstance(cur, tuple) and cur[0] == "enum":
                for a, b in targets:
                    if names.get(a) == cur[2]:
                        return [(b, self.st)]
                return [(otherwise, self.st)]
            if isinstance(cur, tuple) and cur[0] == "optalt" and cur[2] != "M":
                want = "Some" if cur[2] == "S" else "None"
                for a, b in targets:
                    if names.get(a) == want:
                        return [(b, self.st)]
                return [(otherwise, self.st)]
            # unknown discriminant: fork and refine
            covered = set()
            for a, b in targets:
                nm = names.get(a)
                covered.add(nm)
                s2 = self.refine(lv, cur, nm, of_ty)
                if s2 is not None:
                    out.append((b, s2))
            rest = [n for n in names.values() if n not in covered]
            if len(rest) == 1:
                s2 = self.refine(lv, cur, rest[0], of_ty)
                if s2 is not None:
                    out.append((otherwise, s2))
            elif len(rest) > 1:
                for nm in rest:
                    s2 = self.refine(lv, cur, nm, of_ty)
                    if s2 is not None:
                        out.append((otherwise, s2))
            return out
        # symbolic boolean / integer
        if v[0] == "sym":
            t0 = v[1]
            pol = True
            while t0[0] == "not":
                t0 = t0[1]
                pol = not pol
            known = None
            for (ft, fp) in self.st.facts:
                if ft == t0:
                    known = fp
            if len(targets) == 1 and targets[0][0] == 0:
                # bool: 0 -> false target, otherwise -> true
                res = []
                for branch_true, tgt in ((False, targets[0][1]), (True, otherwise)):
                    fact_pol = branch_true if pol else (not branch_true)
                    if known is not None and known != fact_pol:
                        continue
                    if contradicts(self.st.facts, t0, fact_pol):
                        continue
                    s2 = self.st.copy()
                    s2.facts = add_fact(s2.facts, (t0, fact_pol))
                    s2.ev("branch", repr_term(t0), fact_pol, line)
                    res.append((tgt, s2))
                return res
            # integer switch on symbolic value: explore all
            res = []
            for a, b in targets:
                s2 = self.st.copy()
                s2.facts = add_fact(s2.facts, (("Eq", ("const", str(a)), t0), True))
                res.append((b, s2))
            res.append((otherwise, self.st.copy()))
            return res
        # anything else: explore all targets
        res = [(b, self.st.copy()) for a, b in targets]
        res.append((otherwise, self.st.copy()))
        return res

    def refine(self, lv, cur, variant, of_ty):
        """Fork the state, refining the value at `lv` to `variant`."""
        if variant is None:
            return None
        s2 = self.st.copy()
        f2 = Frame(self.I, self.body, self.fid, s2, self.depth)
        if isinstance(cur, tuple) and cur[0] == "optalt":
            if lv[0] == "slot":
                i = s2.inps[lv[1]]
                i.some = "S" if variant == "Some" else "N"
                if variant == "None":
                    i.tok = False
                    # the token is in the slot only if the slot is Some; None ⇒ nothing to lose
            else:
                nv = ("optalt", cur[1] and variant == "Some", "S" if variant == "Some" else "N") + cur[3:]
                f2.write_lv(lv, nv)
            s2.ev("refine", describe(cur), variant)
            return s2
        if isinstance(cur, tuple) and cur[0] == "sym" and isinstance(cur[1], tuple) and cur[1] and cur[1][0] == "cmp" \
                and variant in ("Less", "Equal", "Greater"):
            # `match a.cmp(&b)`: an arm is a comparison fact, the same atoms an if-chain over < and == produces
            a, b = cur[1][1], cur[1][2]
            if variant == "Less":
                ft, fp = norm_cmp("Lt", a, b)
            elif variant == "Greater":
                ft, fp = norm_cmp("Gt", a, b)
            else:
                ft, fp = norm_cmp("Eq", a, b)
            if contradicts(s2.facts, ft, fp):
                return None
            s2.facts = add_fact(s2.facts, (ft, fp))
            f2.write_lv(lv, ("enum", "Ordering", variant, ()))
            s2.ev("branch", repr_term(ft), fp, None)
            return s2
        if isinstance(cur, tuple) and cur[0] == "sym":
            # consult facts for consistency
            t = ("discr", cur[1])
            for (ft, fp) in s2.facts:
                if ft == t and fp != variant:
                    return None
            s2.facts = add_fact(s2.facts, (t, variant))
            short = of_ty.split("<")[0].split("::")[-1]
            nfields = 1 if variant in ("Some", "Ok", "Err", "Continue", "Break") else 0
            payload = tuple(("sym", ("field", ("downcast", cur[1], variant), str(i))) for i in range(nfields))
            f2.write_lv(lv, ("enum", short, variant, payload))
            s2.ev("refine", repr_term(cur[1]), variant)
            return s2
        # top / other
        short = of_ty.split("<")[0].split("::")[-1]
        nfields = 1 if variant in ("Some", "Ok", "Err", "Continue", "Break") else 0
        f2.write_lv(lv, ("enum", short, variant, tuple(TOP for _ in range(nfields))))
        return s2

    # ---------------------------------------------------------- calls
    def call(self, t, line):
        self.I.stats["calls"] += 1
        return self.I.models.call(self, t, line)

    def call_closure(self, clos, args, line):
        """Inline a closure value; returns [(state, retval)]."""
        if not (isinstance(clos, tuple) and clos[0] == "closure"):
            return None
        body = self.I.facts.by_key.get(clos[1])
        if body is None:
            raise AnalysisError("closure body %s not found" % clos[1])
        self.I.stats["closures_inlined"] += 1
        self.I.inlined.add(clos[1])
        env = mk_struct({str(i): v for i, v in enumerate(clos[2])})
        ty1 = body["locals"][1]["ty"]
        st = self.st.copy()
        # closure env lives in a pseudo frame so that `(*_1).n` works for by-ref closures
        if ty1.startswith("&"):
            pf = next(self.I._fid)
            st.frames[pf] = {0: env}
            a1 = ("ref", ("local", pf, 0, ()))
        else:
            a1 = env
        # closure args arrive untupled in MIR
        res = self.I.run_body(body, [a1] + list(args), st, self.depth + 1)
        return res


def term_depth(t, lim=14):
    if not isinstance(t, tuple) or lim <= 0:
        return 0 if not isinstance(t, tuple) else 99
    d = 0
    for x in t:
        if isinstance(x, tuple):
            d = max(d, term_depth(x, lim - 1))
    return d + 1


def _arith_depth(t, d=0):
    if isinstance(t, tuple) and t and t[0] in ("Add", "Sub", "Mul", "AddWithOverflow", "SubWithOverflow"):
        return 1 + max([_arith_depth(x) for x in t[1:] if isinstance(x, tuple)] or [0])
    return 0


def cap_val(v):
    """Widening: deep symbolic terms (and arithmetic chains that grow round a loop) are collapsed so that
    loops reach a fixpoint."""
    if isinstance(v, tuple) and v and v[0] == "sym" and (term_depth(v[1]) > 9 or _arith_depth(v[1]) > 2):
        return ("sym", ("widened",))
    return v


def repr_term(t):
    if not isinstance(t, tuple) or not t:
        return str(t)
    if t[0] == "mem":
        return repr_term(t[1])
    if t[0] == "param":
        return str(t[1])
    if t[0] == "field":
        return "%s.%s" % (repr_term(t[1]), t[2] if not isinstance(t[2], tuple) else t[2][1])
    if t[0] == "const":
        return str(t[1])
    if t[0] in ("Lt", "Eq", "Add", "Sub", "cmp"):
        return "%s(%s, %s)" % (t[0], repr_term(t[1]), repr_term(t[2]))
    if t[0] == "not":
        return "!(%s)" % repr_term(t[1])
    if t[0] == "downcast":
        return "(%s as %s)" % (repr_term(t[1]), t[2])
    if t[0] == "discr":
        return "discr(%s)" % repr_term(t[1])
    if t[0] == "call" and len(t) >= 3 and isinstance(t[2], tuple):
        return "%s(%s)" % (t[1], ", ".join(repr_term(x) for x in t[2]))
    if t[0] == "abs":
        return "_"
    if t[0] == "fn":
        return "fn<%s>" % t[1]
    if not isinstance(t[0], str):
        return "(%s)" % ", ".join(repr_term(x) for x in t)
    return "%s(%s)" % (t[0], ", ".join(repr_term(x) for x in t[1:]))


def describe(v):
    if not isinstance(v, tuple):
        return str(v)
    k = v[0]
    if k == "optalt":
        return "alt[%s%s]" % ("tok," if v[1] else "", v[2])
    if k == "located":
        return "located[%s%s]" % ("tok," if v[1] else "", v[2])
    if k == "ckpt":
        return "ckpt@%s" % (v[1],)
    if k == "cursor":
        return "cursor@%s" % (v[1],)
    if k == "enum":
        return "%s(%s)" % (v[2], ", ".join(describe(x) for x in v[3]))
    if k == "sym":
        return repr_term(v[1])
    if k == "out":
        return "out%s" % sorted(v[1])
    if k == "struct":
        return "{%s}" % ", ".join("%s: %s" % (n, describe(x)) for n, x in v[1])
    return k

"""CONTRACT: conformance of every combinator body's computed automaton with its contract automaton."""
import re

import contracts as C
import contract_gen as G
import contract_map as M
import rules_protocol as RP
from report import RuleResult, V

_spec_cache = {}


def spec_for(uname):
    if "all" not in _spec_cache:
        _spec_cache["all"] = C.load_all()
    s = _spec_cache["all"].get(uname)
    if s is not None:
        return s, "spec/contracts"
    g = G.generated_for(uname)
    if g is not None:
        return C.parse_contracts(g, "contract_gen")[uname], "contract_gen"
    return None, None


def family(uname):
    if re.search(r"(Choice|Group)<\(", uname):
        return "primitive::" + ("Choice" if "Choice<(" in uname else "Group") + "<tuple>"
    if re.match(r"^\(.*\)\[pratt::Operator\]", uname):
        return "pratt operator tuple"
    return None


def bodies_for(run, prop):
    out = []
    for u in sorted(run.I.edges):
        if M.skipped(u):
            continue
        fam = family(u)
        if fam == "primitive::Choice<tuple>":
            props = ["C01"]
        elif fam == "primitive::Group<tuple>":
            props = ["C01", "C04"]
        elif fam == "pratt operator tuple":
            props = ["C09"]
        else:
            g, props = M.group_of(u)
        if prop is None or prop in props:
            out.append(u)
    return out


def reanalyse_inlined(run, b):
    """Automaton of body `b` with calls to other protocol methods of `self` inlined (violations raised while doing so are
    discarded: the disciplines are judged on the ordinary run)."""
    I = run.I
    u = b["uname"]
    old_edges = I.edges.get(u)
    nv = len(I.violations)
    I.edges[u] = set()
    I.inline_self_root = b
    try:
        import protocol as P
        cls = P.body_class(b)
        I.analyse(b, run.entry_for(b, cls))
        edges = I.edges[u]
    except Exception:
        edges = None
    finally:
        I.inline_self_root = None
        del I.violations[nv:]
        I.edges[u] = old_edges
    return C.computed_edges(edges) if edges is not None else None


def conforms_up_to_site_order(spec, comp):
    """Node names distinguish several call sites of the same (child, fn, mode) - `read`, `read#2`, `read#3` - by their order in the
    source.  Swapping the branches of an `if` permutes those ordinals without changing the automaton, so a body that does not
    conform as numbered is compared again under every renumbering of same-named sites (at most 24 variants); it conforms if one
    of them does."""
    import itertools
    names = {x for e in comp for x in (e.src, e.dst) if not x.startswith(("EXIT", "ENTRY"))}
    groups = {}
    for n_ in names:
        base = re.sub(r"#\d+$", "", n_)
        groups.setdefault(base, set()).add(n_)
    groups = {b_: sorted(v, key=lambda x: int(x.rsplit("#", 1)[1]) if "#" in x else 1) for b_, v in groups.items() if len(v) > 1}
    if not groups:
        return None
    total = 1
    for v in groups.values():
        f_ = 1
        for i in range(2, len(v) + 1):
            f_ *= i
        total *= f_
    if total > 24:
        return None
    keys = sorted(groups)
    for perms in itertools.product(*[list(itertools.permutations(groups[k])) for k in keys]):
        ren = {}
        for k, perm in zip(keys, perms):
            for a, b_ in zip(groups[k], perm):
                ren[a] = b_
        if all(a == b_ for a, b_ in ren.items()):
            continue
        # longest names first, through placeholders, so that `read` does not rewrite the prefix of `read#2`
        order = sorted(ren, key=len, reverse=True)

        def rn(txt):
            if not isinstance(txt, str):
                return txt
            for i, a in enumerate(order):
                txt = re.sub(re.escape(a) + r"(?![#\w])", "\x00%d\x00" % i, txt)
            for i, a in enumerate(order):
                txt = txt.replace("\x00%d\x00" % i, ren[a])
            return txt
        comp2 = []
        for e in comp:
            e2 = C.Edge()
            e2.src, e2.res, e2.dst = rn(e.src), e.res, rn(e.dst)
            # in position descriptors and effects a node is named only inside `after(..)` / `before(..)`; the bare words `read`,
            # `before`, `E` there are positions, not nodes
            def rp(txt):
                return re.sub(r"\(([^()]*)\)", lambda m: "(" + rn(m.group(1)) + ")", txt) if isinstance(txt, str) else txt
            e2.pos = rp(e.pos) if isinstance(e.pos, str) else frozenset(rp(x) for x in e.pos)
            e2.effects = tuple(rp(x) for x in e.effects)
            e2.facts = e.facts
            e2.line = getattr(e, "line", None)
            e2.facts_sat = getattr(e, "facts_sat", None)
            comp2.append(e2)
        probs2, n2 = C.conforms(spec, comp2)
        if not probs2:
            return probs2, n2, comp2
    return None


def conforms_up_to_site_merging(spec, comp):
    """Two call sites of the same (child, fn, mode) with the same continuation may be written as one (a shared tail call), and one may
    be duplicated into two arms.  If a body does not conform as numbered, both automata are compared again with same-named sites
    identified (`X#2` -> `X`): every computed transition must still be an instance of a contract transition of the merged node and
    every contract transition must still be realised - an edge that exists at one site only in the code (a missing rewind, an extra
    exit) has no counterpart in the merged contract either way."""
    def strip(txt):
        return re.sub(r"#\d+(?![\w])", "", txt) if isinstance(txt, str) else txt

    def q(edges):
        out, seen = [], set()
        for e in edges:
            e2 = C.Edge()
            e2.src, e2.res, e2.dst = strip(e.src), e.res, strip(e.dst)
            e2.pos = strip(e.pos) if isinstance(e.pos, str) else frozenset(strip(x) for x in e.pos)
            e2.effects = tuple(strip(x) for x in e.effects)
            e2.facts = e.facts
            e2.line = getattr(e, "line", None)
            e2.facts_sat = getattr(e, "facts_sat", None)
            k = (e2.src, e2.res, e2.dst, e2.pos if isinstance(e2.pos, str) else tuple(sorted(e2.pos)), e2.effects, e2.facts)
            if k not in seen:
                seen.add(k)
                out.append(e2)
        return out
    if not any("#" in x for e in list(spec) + list(comp) for x in (e.src, e.dst)):
        return None
    spec2, comp2 = q(spec), q(comp)
    probs2, n2 = C.conforms(spec2, comp2)
    if not probs2:
        return probs2, n2, comp2
    return None


def conforms_up_to_field_renaming(spec, comp):
    """A private field of a combinator struct may be renamed (`parsers` -> `alts`, `is_context` -> `contextual`): the contract names
    children and flags by field.  If a body does not conform, the field names that occur only in the code are mapped one-to-one onto
    the field names that occur only in the contract (at most 3, every bijection tried) and the comparison is repeated."""
    import itertools
    rx = re.compile(r"\bself\.([A-Za-z_]\w*)")

    def names(edges):
        out = set()
        for e in edges:
            for txt in [e.src, e.dst] + list(e.effects) + ([e.pos] if isinstance(e.pos, str) else list(e.pos)) + [a for a, _ in e.facts]:
                if isinstance(txt, str):
                    out |= set(rx.findall(txt))
        return out
    ns, nc = names(spec), names(comp)
    only_s, only_c = sorted(ns - nc), sorted(nc - ns)
    if not only_c or len(only_s) != len(only_c) or len(only_c) > 3:
        return None
    for perm in itertools.permutations(only_s):
        ren = dict(zip(only_c, perm))

        def rn(txt):
            return rx.sub(lambda m: "self." + ren.get(m.group(1), m.group(1)), txt) if isinstance(txt, str) else txt
        comp2 = []
        for e in comp:
            e2 = C.Edge()
            e2.src, e2.res, e2.dst = rn(e.src), e.res, rn(e.dst)
            e2.pos = rn(e.pos) if isinstance(e.pos, str) else frozenset(rn(x) for x in e.pos)
            e2.effects = tuple(rn(x) for x in e.effects)
            e2.facts = frozenset((rn(a), p_) for a, p_ in e.facts)
            e2.line = getattr(e, "line", None)
            fs = getattr(e, "facts_sat", None)
            e2.facts_sat = frozenset((rn(a), p_) for a, p_ in fs) if fs else fs
            comp2.append(e2)
        probs2, n2 = C.conforms(spec, comp2)
        if probs2:
            alt = conforms_up_to_site_order(spec, comp2) or conforms_up_to_site_merging(spec, comp2)
            if alt is not None:
                return alt
            continue
        return probs2, n2, comp2
    return None


def rule_contracts(prop, config="all", floor_key=None):
    run = RP.get_run(config)
    facts = run.facts
    r = RuleResult("CONTRACT")
    bodies = bodies_for(run, prop)
    nedges = 0
    unspecified = []
    for u, m in run.errors:
        if prop is None or prop in (M.group_of(u)[1] or []):
            r.errors.append("analysis failed closed for %s: %s" % (u, m))
    for u in bodies:
        spec, src = spec_for(u)
        b = facts.by_uname.get(u)
        if spec is None:
            if b is not None and not b.get("impl_trait") and not b.get("in_trait") and not b.get("public") and b["kind"] != "Closure":
                # a private free function / inherent helper that is handed the parser input (an extracted failure tail, a shared loop
                # body): it is interpreted in place inside every protocol body that calls it, so it is judged there, as if written inline
                helpers = getattr(r, "_helpers", [])
                helpers.append(u)
                r._helpers = helpers
                continue
            # a combinator impl that did not exist on the reviewed tree (a new combinator, an existing one implemented for a new
            # receiver type such as Group<Vec<P>>): there is no reviewed automaton to compare with.  It is listed, not judged by
            # CONTRACT (the discipline rules POISON / KEEP / LIFO / PFAIL / ALT-LINEAR still run on it; the floor on compared bodies
            # guards against reviewed bodies disappearing behind a renamed key)
            unspecified.append(u)
            continue
        comp = C.computed_edges(run.I.edges[u])
        probs, n = C.conforms(spec, comp)
        if probs and b is not None:
            # the body may delegate to another protocol method of the same receiver that the contract spells out inline
            # (e.g. `next` -> `self.next_cfg(.., &Default::default())`): compare again with such calls inlined
            spec_nodes = {e.src for e in spec} | {e.dst for e in spec}
            foreign = {x for e in comp for x in (e.src, e.dst) if x.startswith("self.") and re.match(r"^self\.\w+:", x) and x not in spec_nodes}
            if foreign:
                comp2 = reanalyse_inlined(run, b)
                if comp2 is not None:
                    probs2, n2 = C.conforms(spec, comp2)
                    if not probs2:
                        probs, n, comp = probs2, n2, comp2
                        r.info.setdefault("compared_after_inlining", []).append(u)
        if probs:
            alt = conforms_up_to_site_order(spec, comp)
            if alt is not None:
                probs, n, comp = alt
                r.info.setdefault("compared_up_to_site_order", []).append(u)
            else:
                alt = conforms_up_to_site_merging(spec, comp)
                if alt is not None:
                    probs, n, comp = alt
                    r.info.setdefault("compared_up_to_site_merging", []).append(u)
                else:
                    alt = conforms_up_to_field_renaming(spec, comp)
                    if alt is not None:
                        probs, n, comp = alt
                        r.info.setdefault("compared_up_to_field_renaming", []).append(u)
        nedges += n
        r.obligations += n
        bad_keys = set()
        for kind, e, why in probs:
            inst = "%s transition: %s%s -> %s" % (kind, e.src, " " + e.res if e.res else "", e.dst)
            if e.facts and kind == "missing":
                inst += " [%s]" % ", ".join(("" if p else "!") + a for a, p in sorted(e.facts))
            if inst in bad_keys:
                continue
            bad_keys.add(inst)
            if kind == "unexpected":
                detail = ("the code of %s has the transition `%s`, which is not an instance of any contract transition: %s"
                          % (u, e.fmt(), why))
            else:
                detail = ("the contract of %s requires the transition `%s`, but %s" % (u, e.fmt(), why))
            r.violations.append(V("CONTRACT", u, inst, detail, b["file"] if b else None, b["line"] if b else None))
        r.discharged += n - len(bad_keys)
        if len(r.samples) < 3 and comp:
            r.samples.append({"body": u, "source": src, "transitions": [e.fmt(sorted(e.facts)[:3]) for e in comp[:4]]})
    # contract entries whose body vanished
    if prop is None and config == "all":
        for u in C.load_all():
            if u not in run.I.edges:
                r.errors.append("contract for %s matches no body in this configuration" % u)
    r.explanation = ("each combinator body is abstracted (typestate interpreter over MIR, all paths, all instantiations) to an automaton "
                     "whose nodes are child-parser calls / token reads and whose edges carry the guard facts, the cursor position "
                     "relative to entry / before / after a child, and the effects (emit, primary error recorded, iterator-state "
                     "writes); it must coincide with the contract automaton written from the PEG reading of the combinator: every "
                     "computed edge is an instance of a contract edge and every contract edge is realised. %d bodies, %d edge "
                     "obligations" % (len(bodies), nedges))
    r.nontrivial = len([u for u in bodies if len(run.I.edges[u]) > 3])
    r.info = dict(r.info or {}, bodies=len(bodies), edges=nedges, unspecified=unspecified)
    r.require_floor(len(bodies), facts, floor_key or ("CONTRACT.%s.bodies" % (prop or "all")), "bodies with a contract automaton")
    return r

"""HELPER-PROV: the small value-level helpers that the protocol rules treat as primitives (sequence / container adaptors, cursor
bases of the inputs, MapExtra / Emitter accessors, error accessors, built-in inspectors, Maybe, grapheme wrappers ...).

Each is a few lines; what it does is fully described by (a) the calls it makes with the provenance of their operands and whether
they happen on every path, (b) the fields of `self` it writes, (c) the provenance of what it returns.  That signature is compared
with the reviewed one in spec/helper_table.py.  Found with tools/coverage_map.py: these were the bodies no other rule read."""
import re

import mirq
from mirq import assigns, Prov, fmt_roots
from report import RuleResult, V
from rules_types import call_prov_of

DERIVE = {"fmt", "clone", "eq", "ne", "hash", "assert_fields_are_eq", "cmp", "partial_cmp", "clone_from"}

# group -> (regex over qname, properties served, what the group is)
GROUPS = {
    "seq": (r"\[container::(Seq|OrderedSeq)\]::(seq_iter|to_maybe_ref)$", ["C01", "C14", "C15"],
            "Seq adaptors: the items of a just()/one_of()/none_of() pattern, in order"),
    "container": (r"(\[container::Container\]::(push|with_capacity)|^container::Container::with_capacity)$", ["C02", "C19"],
                  "Container impls: collect() appends each item once, at the end"),
    "input-base": (r"(\[input::Input\]::(begin|cursor_location)|\[input::SliceInput\]::full_slice|\[input::StrInput\]::stringify)$",
                   ["C07", "C10", "C03"], "cursor origin / location / whole slice of every input"),
    "mapextra": (r"^input::MapExtra::\w+$", ["C07", "C15", "C18"], "what e.span() / e.slice() / e.state() / e.ctx() hand to user code"),
    "emitter": (r"^input::(Emitter::\w+|Errors::secondary_errors_since|InputOwn::\w+|Checkpoint::(cursor|inspector)|Cursor::inner)$",
                ["C05", "C13", "C03"], "validate's Emitter, owner of the per-parse state"),
    "inspector": (r"^(\(\)|inspector::SimpleState)\[(inspector::Inspector|std::ops::Deref|std::ops::DerefMut|std::convert::From)\]::\w+$", ["C18"],
                  "the built-in inspectors are no-ops"),
    "error-acc": (r"^error::(Cheap|Simple|Rich|RichReason)::(new|span|found|expected|contexts|custom|reason|into_reason|take_found)$",
                  ["C06", "C17"], "error accessors report the stored span / found / expected"),
    "located": (r"^private::Located::at$", ["C06", "C05"], "Located::at pairs an error with its position"),
    "maybe": (r"^(util::Maybe::\w+|util::Maybe\[std::(ops::Deref|ops::DerefMut|convert::From)\]::\w+|.*\[util::IntoMaybe\]::map_maybe)$",
              ["C10", "C01"], "Maybe / IntoMaybe: borrowed-or-owned token plumbing"),
    "grapheme": (r"^(text::unicode::(Grapheme|Graphemes|GraphemesIter)(::\w+|\[std::(iter::Iterator|iter::DoubleEndedIterator|borrow::Borrow|convert::AsRef)\]::\w+)"
                 r"|&'src (str|text::unicode::Graphemes)\[std::(convert::From|iter::IntoIterator)\]::\w+)$",
                 ["C10", "C14", "C20"], "grapheme wrappers: same bytes, extended segmentation"),
    "misc": (r"^(Boxed\[Parser\]::boxed|pratt::Operator::boxed|input::Errors\[std::default::Default\]::default|DefaultExpected::into_owned"
             r"|error::RichPattern\[std::convert::From\]::from|EmptyPhantom::new)$", ["C06", "C13", "C09"],
             "re-boxing returns the same parser; a fresh Errors has no pending error; expected-pattern conversions keep their payload"),
    "inputref-api": (r"^input::InputRef::(next|next_maybe|next_ref|peek|peek_maybe|peek_ref|skip|cursor|state|ctx|slice|slice_from|slice_since|"
                     r"slice_trailing_inner|span_from|span_since|full_slice)$", ["C10", "C07", "C18", "C01", "C14", "C20"],
                     "what custom() / ExtParser code sees: next* = the hooked inner reader, peek* = the input's own reader on a COPY of the cursor, "
                     "slices / spans measured on the cache between the given cursor and the current one"),
    "recursive": (r"^(recursive::(OnceCell::(get|new)|Recursive::parser)|cache::Cache::\w+|cache::Cache\[std::default::Default\]::default)$",
                  ["C12", "C13"], "recursive handle upgrade, cache accessors"),
}


def signature(facts, b):
    """(a) what the body does: maximal call terms in effects normal form, (b) the fields of its arguments it writes, (c) every value it
    can return, in normal form (engine/nf.py: Option / iterator plumbing, closures, casts and delegation to crate-local functions are
    erased, so a refactor that routes the same values differently keeps the signature)."""
    import nf
    from rules_types import effects_nf, _NF
    out = list(effects_nf(facts, b))
    N = _NF[id(facts)]
    rets = set(mirq.return_blocks(b))
    pv = nf.NProv(b, facts)
    for i, bl, s in assigns(b):
        pl = s["place"]
        if pl["p"] and 1 <= pl["l"] <= b["arg_count"] and "*" in mirq.place_fields(pl):
            always = not (mirq.reachable(b, 0, avoid={i}) & rets)
            vals = " | ".join(sorted(N.alts(pv.of_rvalue(s["rv"], 0))))
            out.append("arg%d.%s := %s [%s]" % (pl["l"], ".".join(mirq.field_path(pl)), vals, "always" if always else "sometimes"))
    out.append("returns " + " | ".join(N.value_flow(b)))
    return sorted(out)


def bodies_of(facts, group):
    rx = re.compile(GROUPS[group][0])
    out = []
    for b in facts.bodies:
        if b["kind"] == "Closure" or b["name"] in DERIVE:
            continue
        if rx.search(b["qname"]):
            out.append(b)
    return out


def rule_helper_prov_for(pid=None):
    def rule(facts):
        import helper_table as HT
        r = RuleResult("HELPER-PROV")
        comp = {}
        n = 0
        groups = [g for g, (_, props, _) in GROUPS.items() if pid is None or pid in props]
        for g in groups:
            for b in bodies_of(facts, g):
                key = b["uname"]
                got = signature(facts, b)
                comp[key] = got
                n += 1
                want = HT.lookup(key, facts.config)
                if want is None and key not in HT._D:
                    # a body that did not exist on the reviewed tree (a new Container / Seq / Span impl, a new accessor): new code has no
                    # reviewed reference; it is listed, not judged (the floor guards against reviewed bodies getting lost)
                    r.info.setdefault("new_unjudged", []).append(key)
                    n -= 1
                    continue
                ok = want is not None and (sorted(want) == got or __import__("nf").equal_up_to_renaming(got, want))
                r.ob(ok)
                if len(r.samples) < 4:
                    r.samples.append({key: got})
                if not ok:
                    r.violations.append(V("HELPER-PROV", key, "helper body [%s]" % g,
                                          "%s (%s) must perform exactly the reviewed operations on the reviewed operands and return the "
                                          "reviewed value: computed %s, expected %s" % (key, GROUPS[g][2], got, want),
                                          b["file"], b["line"]))
        for key, grp in HT.anchors(facts.config):
            if grp in groups and key not in comp:
                # a private helper moved to another module keeps its body: look for it without module qualifiers
                sk = mirq.short_key(key)
                moved = [b_ for b_ in facts.bodies if b_["kind"] != "Closure" and b_["uname"] not in comp and mirq.short_key(b_["uname"]) == sk]
                if len(moved) == 1:
                    import nf as _nf
                    got_ = signature(facts, moved[0])
                    want_ = HT.lookup(key, facts.config)
                    ok_ = want_ is not None and (sorted(want_) == got_ or _nf.equal_up_to_renaming(got_, want_))
                    n += 1
                    r.ob(ok_)
                    if not ok_:
                        r.violations.append(V("HELPER-PROV", moved[0]["uname"], "helper body [%s] (moved from %s)" % (grp, key),
                                              "%s must perform exactly the reviewed operations: computed %s, expected %s" % (moved[0]["uname"], got_, want_),
                                              moved[0]["file"], moved[0]["line"]))
                    continue
                r.errors.append("anchor %s: no such helper body in this configuration" % key)
        r.explanation = ("%d helper bodies (groups %s) perform exactly the reviewed calls / field writes and return the reviewed provenance term "
                         "(spec/helper_table.py)" % (n, ", ".join(groups)))
        r.nontrivial = n
        r.info = {"groups": groups, "bodies": n}
        r.require_floor(n, facts, "HELPER-PROV.%s" % (pid or "all"), "helper bodies")
        return r
    return rule


# ====================================================================== ALLOC-INV (C20: no allocation sized by a parse-time bound)

_ALLOC_NAMES = re.compile(r"^(with_capacity|with_capacity_in|with_capacity_and_hasher|reserve|reserve_exact|try_reserve|try_reserve_exact|resize|"
                          r"resize_with|repeat|from_elem|vec_from_elem|extend_with|set_len|with_exact_capacity)$")


def rule_alloc_inv(facts):
    """Who asks an allocator for a run-time chosen amount?  On the reviewed tree: only the `Container::with_capacity` impls, which
    forward their argument, and nobody calls those.  A call whose size operand is not a literal - `C::with_capacity(at_least)`,
    `vec.reserve(n)` with n read from a config or the context - lets a hostile length field abort the process (capacity overflow /
    allocation failure) before a single item is parsed."""
    r = RuleResult("ALLOC-INV")
    allowed = re.compile(r"\[container::Container\]::with_capacity$|^container::Container::with_capacity$")
    n = sized = 0
    users = {}
    for b in facts.bodies:
        pv = None
        for i, bl, t, f in mirq.calls(b):
            if f is None or not _ALLOC_NAMES.match(f["name"]):
                continue
            n += 1
            pv = pv or Prov(b)
            ops = [fmt_roots(pv.of_operand(a["op"])) for a in t["args"]]
            size_ops = [o for o, a in zip(ops, t["args"]) if a.get("ty", "") in ("usize", "u64", "u32")]
            # a literal, or the number of sub-parsers / patterns the grammar itself holds (`self.parsers.len()`): bounded by the
            # grammar, not by the input or by a run-time supplied count
            const = all(re.match(r"^const \d+_\w+$", o) or re.match(r"^len\(arg1(\.\w+)+\)$", o) for o in size_ops)
            if const:
                r.ob(True)
                continue
            sized += 1
            base = re.sub(r"(::\{closure#\d+\})+$", "", b["uname"])
            ok = bool(allowed.search(re.sub(r"<.*", "", base))) and size_ops == ["arg1"]
            r.ob(ok)
            users.setdefault(base, []).append("%s(%s)" % (f["name"], ", ".join(ops)))
            if not ok:
                r.violations.append(V("ALLOC-INV", base, "run-time sized allocation %s" % f["name"],
                                      "%s calls %s(%s): an allocation whose size is a run-time value (a repetition bound, a configured or "
                                      "context-supplied count) can be made to panic with `capacity overflow` or abort the process by a "
                                      "hostile input / grammar bound before anything is parsed; only the Container::with_capacity impls may "
                                      "forward a requested capacity, and no parser body requests one" % (base, f["name"], ", ".join(ops)),
                                      b["file"], bl["line"]))
    # nobody inside the crate requests a capacity from a Container
    callers = []
    for b in facts.bodies:
        for i, bl, t, f in mirq.calls(b):
            if f is not None and f["name"] == "with_capacity" and (f.get("trait") == "container::Container"):
                base = re.sub(r"(::\{closure#\d+\})+$", "", b["uname"])
                if not allowed.search(re.sub(r"<.*", "", base)):
                    callers.append((base, b, bl))
    r.ob(not callers)
    for base, b, bl in callers:
        if not any(v.fn == base for v in r.violations):
            r.violations.append(V("ALLOC-INV", base, "requests a container capacity",
                                  "%s calls Container::with_capacity: on the reviewed tree every output container starts as "
                                  "`Default::default()` and grows with the items actually parsed" % base, b["file"], bl["line"]))
    r.explanation = ("%d allocation-sizing calls in the crate, %d with a run-time size operand: all of them are the Container::with_capacity "
                     "impls forwarding their argument, and no parser body calls Container::with_capacity" % (n, sized))
    r.nontrivial = sized + 1
    r.info = {"run-time sized": users}
    r.require_floor(sized, facts, "ALLOC-INV.sized", "run-time sized allocation calls (the Container impls)")
    return r


# ====================================================================== OVERRIDE-INV

OVERRIDES_ALLOWED = {
    # (trait, self type head, method): reason
    ("Parser", "Boxed", "boxed"): "boxing a Boxed parser returns it unchanged (HELPER-PROV group `recursive` pins nothing here: body is `self`)",
}


def rule_override_inv(facts):
    """ENTRY / GRAMMAR / MODE-PAIR decide the PROVIDED bodies of Parser, IterParser, ConfigParser, ConfigIterParser (parse, check, boxed,
    map, repeated, go_emit_cfg ...).  They speak for every parser type only if no impl replaces a provided method with its own body."""
    r = RuleResult("OVERRIDE-INV")
    n = 0
    seen = set()
    for im in facts.impls:
        tr = im.get("trait")
        if tr not in ("Parser", "IterParser", "ConfigParser", "ConfigIterParser") or tr not in facts.traits:
            continue
        dflt = {it["name"] for it in facts.traits[tr]["items"] if it.get("has_default") and it["kind"] == "AssocFn"}
        head = re.sub(r"^&\s*", "&", re.sub(r"<.*", "", im["self_ty"])).split("::")[-1]
        n += 1
        for it in im["items"]:
            if it["name"] not in dflt:
                continue
            k = (tr, head, it["name"])
            seen.add(k)
            if it["name"] in ("go_emit_cfg", "go_check_cfg", "go_emit", "go_check"):
                # the mode-specific forwarders: whoever provides the body, MODE-PAIR judges it (exactly `go_cfg::<Emit|Check>` on self,
                # or the same mode-specific method on the wrapped parser)
                r.ob(True)
                continue
            ok = k in OVERRIDES_ALLOWED
            r.ob(ok)
            if not ok:
                r.violations.append(V("OVERRIDE-INV", "%s[%s]::%s" % (im["self_ty"], tr, it["name"]), "overrides a provided method",
                                      "impl %s replaces the provided method `%s::%s` with its own body: the rules that decide what "
                                      "`%s` does (ENTRY for parse/check, GRAMMAR for the builders, MODE-PAIR for the forwarders) analyse the "
                                      "trait's body, which this type no longer runs - e.g. `boxed()` on the weak handle inside "
                                      "`recursive(|p| ..)` must not touch the not-yet-defined parser"
                                      % (im.get("trait_full") or im["self_ty"], tr, it["name"], it["name"]), im.get("file"), im.get("line")))
    for k in OVERRIDES_ALLOWED:
        if k not in seen:
            r.errors.append("anchor: expected override %s::%s for %s not found" % (k[0], k[2], k[1]))
    r.ob(True)
    r.explanation = ("%d impls of Parser / IterParser / ConfigParser / ConfigIterParser: the only provided method replaced by an impl is "
                     "Boxed::boxed (returns self)" % n)
    r.nontrivial = n
    r.info = {"impls": n, "overrides": sorted("%s %s::%s" % k for k in seen)}
    r.require_floor(n, facts, "OVERRIDE-INV.impls", "parser trait impls")
    return r


# ====================================================================== CTOR-INV (who may construct the parse-state types)

CTORS = {
    # ADT: functions allowed to build it with a struct literal (their bodies are pinned by HELPER-PROV / HOOKS-SAVE-REWIND / SUB-INPUT / ENTRY)
    "input::MapExtra": {"input::MapExtra::new"},
    "input::Checkpoint": {"input::InputRef::save"},
    "input::Cursor": {"input::InputRef::cursor"},
    "input::Errors": {"input::Errors[std::default::Default]::default"},
    "input::InputRef": {"input::InputOwn::as_ref_start", "input::InputRef::with_ctx", "input::InputRef::with_input", "input::InputRef::with_state"},
    "input::InputOwn": {"input::InputOwn::new", "input::InputOwn::new_state"},
    "input::Emitter": {"input::Emitter::new"},
    "ParseResult": {"ParseResult::new"},
}


def rule_ctor_inv(facts):
    """What user code is shown (MapExtra), what a rewind restores (Checkpoint / Cursor), where errors are kept (Errors / Located),
    the per-parse owner (InputOwn / InputRef) and the result (ParseResult) are built by one reviewed constructor each; a struct literal
    anywhere else (a helper that assembles its own MapExtra from a peeked cursor and the not-yet-updated state, a hand-made Checkpoint
    without on_save) bypasses the rules that pin those constructors."""
    r = RuleResult("CTOR-INV")
    n = 0
    seen = {k: set() for k in CTORS}
    for b in facts.bodies:
        base = re.sub(r"<.*", "", re.sub(r"(::\{closure#\d+\})+$", "", b["uname"]))
        if b["name"] in ("clone", "clone_from") and (b.get("impl_trait") or "").endswith("Clone"):
            continue
        for _, bl, s in assigns(b):
            rv = s["rv"]
            if rv["k"] != "agg" or rv.get("ak") != "adt" or rv["adt"] not in CTORS:
                continue
            n += 1
            seen[rv["adt"]].add(base)
            ok = base in CTORS[rv["adt"]]
            r.ob(ok)
            if not ok:
                r.violations.append(V("CTOR-INV", base, "constructs %s" % rv["adt"],
                                      "%s builds a %s with a struct literal; only %s may (their bodies are the reviewed ones): a value "
                                      "assembled elsewhere is not covered by the rules that decide what user code sees / what a rewind "
                                      "restores / where errors are kept" % (base, rv["adt"], sorted(CTORS[rv["adt"]])), b["file"], s.get("line") or bl["line"]))
    for adt, fns in CTORS.items():
        for fn in fns:
            if fn not in seen[adt] and not (adt == "input::InputRef" and fn.endswith("with_input") and False):
                r.errors.append("anchor: %s no longer constructs %s" % (fn, adt))
    r.explanation = ("%d struct-literal constructions of the parse-state types (%s): each in its reviewed constructor only"
                     % (n, ", ".join(k.split("::")[-1] for k in CTORS)))
    r.nontrivial = n
    r.info = {"constructions": {k: sorted(v) for k, v in seen.items()}}
    r.require_floor(n, facts, "CTOR-INV.sites", "constructions of parse-state types")
    return r


# ====================================================================== PANIC-INV (C20 / C11 / C12: explicit panic sites are a reviewed inventory)

_PANIC_CALLS = {"unwrap", "expect", "unwrap_err", "expect_err", "unwrap_unchecked", "unreachable_unchecked", "assert_failed", "assert_failed_inner",
                "unreachable", "unimplemented", "todo", "borrow_mut", "borrow", "split_at", "split_at_mut", "copy_from_slice", "swap_remove", "remove"}


def _is_taken_alt(b, t):
    """Is the operand of this unwrap the value just taken out of the pending-error slot (`inp.take_alt()`, `inp.errors.alt.take()`)?"""
    if not t["args"]:
        return False
    pv = Prov(b)
    rs = pv.of_operand(t["args"][0]["op"])
    if not rs:
        return False
    for x in rs:
        if x[0] == "call" and x[1] == "take_alt":
            continue
        if x[0] == "call" and x[1] == "take" and len(x[3]) == 1 and all(y[0] == "arg" and "alt" in y[2:] and "errors" in y[2:] for y in x[3][0]) and x[3][0]:
            continue
        return False
    return True


def _unwrap_guarded(b, blk, t):
    """Is the Option / Result that this unwrap / expect consumes known to be Some / Ok on EVERY path that reaches the call - because
    the same value's discriminant (or is_some / is_ok / is_none / is_err) was tested on the path and the bad variant left through
    another branch?  Such an unwrap cannot panic; it is a way of spelling the match arm."""
    if not t["args"]:
        return False
    pl = mirq.operand_place(t["args"][0]["op"])
    if pl is None or pl["p"]:
        return False
    # trace the operand back through moves / `ok()` / `as_ref()` ... to the tested local(s)
    bases = {pl["l"]}
    changed = True
    while changed:
        changed = False
        for _, bl, s in assigns(b):
            if s["place"]["l"] in bases and not s["place"]["p"]:
                rv = s["rv"]
                src = None
                if rv["k"] == "use":
                    src = mirq.operand_place(rv["op"])
                elif rv["k"] in ("ref", "copyderef"):
                    src = rv["place"]
                if src is not None and not [e for e in src["p"] if e != "*"] and src["l"] not in bases:
                    bases.add(src["l"]); changed = True
        for _, bl, t2, f2 in mirq.calls(b):
            if f2 is not None and f2["name"] in ("ok", "as_ref", "as_mut", "as_deref", "err") and f2.get("krate") != "chumsky" \
                    and t2["dest"]["l"] in bases and not t2["dest"]["p"] and t2["args"]:
                src = mirq.operand_place(t2["args"][0]["op"])
                if src is not None and not [e for e in src["p"] if e != "*"] and src["l"] not in bases:
                    bases.add(src["l"]); changed = True
    good = {"Some", "Ok"}
    try:
        ps = mirq.paths(b, limit=4000, stop=lambda x: x == blk)
    except RuntimeError:
        return False
    seen_any = False
    for path in ps:
        if not path or path[-1][0] != blk:
            continue
        seen_any = True
        ok = False
        for bb, idx in path:
            bl = b["blocks"][bb]
            tt = bl["term"]
            if tt["k"] != "switch" or idx in (None, "loop"):
                continue
            op = mirq.operand_place(tt["op"])
            if op is None:
                continue
            for s in bl["stmts"]:
                if s["k"] == "assign" and s["place"]["l"] == op["l"] and s["rv"]["k"] == "discr" and s["rv"]["place"]["l"] in bases:
                    names = dict((int(v), n) for v, n in s["rv"].get("variants") or [])
                    ch = mirq.switch_choice(b, bb, idx)
                    if ch == "otherwise":
                        listed = {int(v) for v, _ in tt["targets"]}
                        rest = [n for v, n in names.items() if v not in listed]
                        chosen = rest[0] if len(rest) == 1 else None
                    else:
                        chosen = names.get(int(ch))
                    if chosen in good:
                        ok = True
        if not ok:
            return False
    return seen_any


def _unguarded_panics(b):
    """Number of calls into core::panicking in `b` that are NOT dominated by a branch on a `NONCONSUMPTION_IS_OK` constant."""
    dom = mirq.dominators(b)
    guards = set()
    for i, bl in enumerate(b["blocks"]):
        t = bl["term"]
        if t["k"] != "switch":
            continue
        op = mirq.operand_place(t["op"])
        vals = []
        if "k" in t["op"]:
            vals.append(str(t["op"]["k"].get("val", "")))
        elif op is not None and not op["p"]:
            for s in bl["stmts"]:
                if s["k"] == "assign" and s["place"]["l"] == op["l"] and not s["place"]["p"]:
                    for o in (s["rv"].get("op"), s["rv"].get("a")):
                        if isinstance(o, dict) and "k" in o:
                            vals.append(str(o["k"].get("val", "")))
                        elif isinstance(o, dict):
                            pl = mirq.operand_place(o)
                            if pl is not None and not pl["p"]:
                                for _, _, s2 in assigns(b):
                                    if s2["place"]["l"] == pl["l"] and not s2["place"]["p"] and s2["rv"]["k"] == "use" and "k" in s2["rv"]["op"]:
                                        vals.append(str(s2["rv"]["op"]["k"].get("val", "")))
        if any("NONCONSUMPTION_IS_OK" in v for v in vals):
            guards.add(i)
    n = 0
    for i, bl in enumerate(b["blocks"]):
        t = bl["term"]
        if t["k"] != "call":
            continue
        f = mirq.callee_of(t)
        if f is None or f.get("krate") == "chumsky":
            continue
        p = mirq.callee_path(f)
        if "panicking" in p or p.endswith("::panic") or f["name"] in ("panic_fmt", "panic_display", "panic_str", "begin_panic"):
            if not (guards & dom.get(i, set())):
                n += 1
    return n


_NF_LOCAL = {}


def _index_in_range(b, msg):
    """BoundsCheck { len: L, index: _k }: is _k an element of the range `0..L` (the counter of a `for` loop over exactly the checked
    length)?"""
    m = re.search(r"len: (?:const |copy |move )?([\w:<>]+), index: (?:copy|move) _(\d+)", msg)
    if not m or _FACTS_FOR_NF[0] is None:
        return False
    import nf
    facts = _FACTS_FOR_NF[0]
    k = id(facts)
    if k not in _NF_LOCAL:
        _NF_LOCAL.clear()
        _NF_LOCAL[k] = nf.Normalizer(facts)
    try:
        alts = _NF_LOCAL[k].alts(nf.NProv(b, facts).of_local(int(m.group(2))))
    except Exception:
        return False
    L = m.group(1)
    return bool(alts) and all(re.match(r"^elem\(Range\{start: const 0_usize, end: (const )?%s\}\)$" % re.escape(L), a) for a in alts)


_FACTS_FOR_NF = [None]


def panic_sites(b):
    """Operations of body `b` that can panic by themselves: calls into core::panicking, Option/Result unwrap / expect (and the
    unchecked forms, UB instead of a panic), RefCell borrows, Index / IndexMut with something other than `..`, a few slice / Vec
    methods with index preconditions, and MIR bounds-check / division assertions.  (Arithmetic-overflow assertions are not counted:
    AFFINE / STREAM bound the arithmetic that matters, every `+ 1` on a cursor has one.)"""
    out = []
    for i, bl in enumerate(b["blocks"]):
        t = bl["term"]
        if t["k"] == "assert":
            m = str(t.get("msg", ""))
            if m.startswith("BoundsCheck") and _index_in_range(b, m):
                continue                # `for i in 0..LEN { a[i] }` with LEN the checked length: cannot fail
            if m.startswith(("BoundsCheck", "DivisionByZero", "RemainderByZero")):
                out.append(m.split("(")[0].split(" ")[0])
            continue
        if t["k"] != "call":
            continue
        f = mirq.callee_of(t)
        if f is None or f.get("krate") == "chumsky":
            continue
        p = mirq.callee_path(f)
        nm = f["name"]
        if "panicking" in p or p.endswith("::panic") or nm in ("panic_fmt", "panic_display", "panic_str", "begin_panic"):
            out.append("panic")
        elif nm in _PANIC_CALLS and (f.get("krate") in ("core", "std", "alloc")):
            if nm in ("borrow", "borrow_mut") and "RefCell" not in (f.get("self_ty") or p):
                continue
            if nm in ("remove",) and "Vec" not in (f.get("self_ty") or ""):
                continue
            if nm in ("unwrap", "expect") and _unwrap_guarded(b, i, t):
                continue
            if nm in ("unwrap", "expect") and _is_taken_alt(b, t):
                continue        # the "Can't fail!" unwrap of the pending error: PFAIL decides, on every path of every body, that it is Some
            out.append(nm)
        elif nm in ("index", "index_mut") and f.get("krate") in ("core", "std", "alloc"):
            tys = [a.get("ty", "") for a in t["args"][1:]]
            if not any("RangeFull" in x for x in tys):
                out.append("index")
    return out


def rule_panic_inv(facts):
    """`Parsing is total: ... never a panic`.  Every operation in the crate that can panic on its own is in a reviewed inventory
    (spec/panic_table.py): the "Can't fail!" unwraps whose precondition PFAIL decides, the documented user-error panics (define()
    twice, unwrapped(), todo(), ParseResult::unwrap, the debug progress assertions guarded by NONCONSUMPTION-FWD), the boundary-
    justified unchecked unwraps (INPUT-MISC).  A body that gains a panic-capable operation beyond its reviewed count - or a new body
    that has one - is reported: a debug guard that panics on a legitimate re-entry, an index where `get` was, an `expect` on a value
    that a particular grammar makes `None`."""
    import panic_table as PT
    import collections
    _FACTS_FOR_NF[0] = facts
    r = RuleResult("PANIC-INV")
    n = 0
    comp = {}
    for b in facts.bodies:
        if b["name"] in DERIVE and b["kind"] != "Closure":
            continue
        ss = panic_sites(b)
        if not ss:
            continue
        # the debug-only progress assertion of the iterable drivers (`if !A::NONCONSUMPTION_IS_OK { debug_assert!(before != cursor) }`):
        # a panic that is reached only under a test of a child's NONCONSUMPTION_IS_OK constant.  Whether it can fire for a
        # well-formed grammar is NONCONSUMPTION-FWD's question, for every driver, old or new; in a body that is not in the reviewed
        # inventory it is not counted as an unreviewed way to abort a parse
        if re.sub(r"(::\{closure#\d+\})+$", "", re.sub(r"<.*", "", b["uname"])) not in PT.PANIC_SITES and "panic" in ss:
            ss = [x for x in ss if x != "panic"] + ["panic"] * _unguarded_panics(b)
        if not ss:
            continue
        base = re.sub(r"(::\{closure#\d+\})+$", "", re.sub(r"<.*", "", b["uname"]))
        c = comp.setdefault(base, collections.Counter())
        # several instantiations of one generic body (Unwrapped<Option>, Unwrapped<Result>) are one site: keep the maximum
        cur = collections.Counter(ss)
        if b["kind"] == "Closure":
            # closures count towards their parent; instantiations of one closure (generic suffix stripped) are one site
            key2 = re.sub(r"<.*", "", b["uname"])
            prev = comp.setdefault(base + "#clos", {})
            old_ = prev.get(key2, collections.Counter())
            for k, v in cur.items():
                if v > old_[k]:
                    c[k] += v - old_[k]
                    old_[k] = v
            prev[key2] = old_
        else:
            own = comp.setdefault(base + "#own", collections.Counter())
            for k, v in cur.items():
                if v > own[k]:
                    c[k] += v - own[k]
                    own[k] = v
        comp[base + "#file"] = (b["file"], b["line"])
    files = {k[:-5]: v for k, v in comp.items() if k.endswith("#file")}
    comp = {k: v for k, v in comp.items() if "#" not in k}
    # a private function that was renamed or moved keeps its panic sites: an unlisted function is paired with a listed one that no longer
    # exists when both have exactly the same sites (same file first; one-to-one)
    present = {re.sub(r"(::\{closure#\d+\})+$", "", re.sub(r"<.*", "", b_["uname"])) for b_ in facts.bodies}
    vanished = {k: v for k, v in PT.PANIC_SITES.items() if k not in present}
    renamed = {}
    for base, c in sorted(comp.items()):
        if base in PT.PANIC_SITES:
            continue
        cands = [k for k, v in vanished.items() if v == dict(c) and k not in renamed.values()]
        same_mod = [k for k in cands if k.split("::")[0] == base.split("::")[0]] or [k for k in cands if mirq.short_key(k) == mirq.short_key(base)]
        if len(same_mod) == 1:
            renamed[base] = same_mod[0]
    for base, c in sorted(comp.items()):
        want = PT.PANIC_SITES.get(renamed.get(base, base), {})
        for kind, cnt in sorted(c.items()):
            n += 1
            ok = cnt <= want.get(kind, 0)
            r.ob(ok)
            if not ok:
                r.violations.append(V("PANIC-INV", base, "panic-capable `%s` x%d (reviewed: %d)" % (kind, cnt, want.get(kind, 0)),
                                      "%s contains %d `%s` operation(s) that can panic by themselves; the reviewed inventory allows %d "
                                      "(spec/panic_table.py lists every explicit panic site of the crate with the reason it cannot fire, or "
                                      "is a documented user error): a new one is a way for some grammar / input to abort the parse instead "
                                      "of yielding a result" % (base, cnt, kind, want.get(kind, 0)), *files[base]))
    r.explanation = ("%d (function, kind) pairs of panic-capable operations in the crate (panic!/assert!, unwrap/expect and unchecked forms, "
                     "RefCell borrows, non-`..` indexing, bounds / division assertions): none beyond the reviewed inventory of %d functions"
                     % (n, len(PT.PANIC_SITES)))
    r.nontrivial = n
    r.info = {"computed": {k: dict(v) for k, v in comp.items()}}
    r.samples = [{k: dict(v)} for k, v in list(sorted(comp.items()))[:4]]
    r.require_floor(n, facts, "PANIC-INV.sites", "panic-capable (function, kind) pairs")
    return r

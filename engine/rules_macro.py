"""MACRO-EXPAND: chumsky's exported `macro_rules!` macros (`select!`, `select_ref!`) have no MIR of their own - what they mean is what
their expansion at a call site means.  /verif/macro_probe holds one call site per clause; it is type-checked against /repo's
current tree with the fact-extracting driver (nothing is run) and the MIR of the expansion is analysed:

  select! / select_ref!   arms are tried in order with MATCH-GUARD semantics: in the closure the macro builds, the `false` outcome of
                          an arm's guard must still reach the construction of a later arm's output (a token that matches a pattern
                          but fails its guard is offered to the following arms), and the `true` outcome reaches the arm's own output.
"""
import hashlib
import json
import os
import shutil
import subprocess
import tempfile

import facts as factsmod
import mirq
from report import RuleResult, V

VERIF = os.path.dirname(os.path.dirname(os.path.abspath(__file__)))
PROBE = os.path.join(VERIF, "macro_probe")
_cache = {}


def probe_facts():
    repo = factsmod.REPO
    factsmod.ensure_driver()
    h = hashlib.sha256()
    h.update(factsmod.repo_hash(repo).encode())
    for f in ("Cargo.toml", "src/lib.rs"):
        h.update(open(os.path.join(PROBE, f), "rb").read())
    key = h.hexdigest()[:24]
    if key in _cache:
        return _cache[key]
    os.makedirs(factsmod.FACTS_DIR, exist_ok=True)
    out = os.path.join(factsmod.FACTS_DIR, "facts-macroprobe-%s.json" % key)
    if not os.path.exists(out):
        tmp = tempfile.mkdtemp(prefix="verif-macroprobe-")
        try:
            shutil.copytree(os.path.join(PROBE, "src"), os.path.join(tmp, "src"))
            toml = open(os.path.join(PROBE, "Cargo.toml")).read().replace('path = "/repo"', 'path = "%s"' % repo)
            open(os.path.join(tmp, "Cargo.toml"), "w").write(toml)
            shutil.copy(os.path.join(repo, "Cargo.lock"), os.path.join(tmp, "Cargo.lock"))
            env = dict(os.environ)
            env.update({
                "LD_LIBRARY_PATH": os.path.join(factsmod._sysroot(), "lib"),
                "RUSTFLAGS": "-Zmir-opt-level=0 -Awarnings",
                "RUSTC_WORKSPACE_WRAPPER": factsmod.DRIVER,
                "VERIF_CRATE": "chumsky_macro_probe",
                "VERIF_FACTS_OUT": out + ".part",
                "CARGO_TARGET_DIR": os.path.join(tmp, "target"),
                "CARGO_NET_OFFLINE": "true",
            })
            env.pop("RUSTC_WRAPPER", None)
            p = subprocess.run(["cargo", "+nightly", "check", "--offline", "--lib", "--quiet"], cwd=tmp, env=env,
                               stdout=subprocess.PIPE, stderr=subprocess.STDOUT, text=True)
            if p.returncode != 0 or not os.path.exists(out + ".part"):
                raise factsmod.FactsError("macro probe crate did not type-check against %s (the macros' surface syntax changed, or the tree "
                                          "does not compile):\n%s" % (repo, p.stdout[-3000:]))
            os.rename(out + ".part", out)
        finally:
            shutil.rmtree(tmp, ignore_errors=True)
        olds = sorted((f for f in os.listdir(factsmod.FACTS_DIR) if f.startswith("facts-macroprobe-")),
                      key=lambda f: os.path.getmtime(os.path.join(factsmod.FACTS_DIR, f)))
        for f in olds[:-6]:
            try:
                os.remove(os.path.join(factsmod.FACTS_DIR, f))
            except OSError:
                pass
    d = json.load(open(out))
    _cache[key] = d
    return d


def _agg_blocks(b, variant):
    out = set()
    for i, bl in enumerate(b["blocks"]):
        for s in bl["stmts"]:
            if s["k"] == "assign" and s["rv"]["k"] == "agg" and s["rv"].get("variant") == variant:
                out.add(i)
    return out


def rule_macro_expand(facts=None):
    r = RuleResult("MACRO-EXPAND")
    try:
        d = probe_facts()
    except factsmod.FactsError as e:
        r.errors.append(str(e)[:1500])
        return r
    bodies = d["bodies"]
    n = 0
    for probe in ("select_probe", "select_ref_probe"):
        cands = []
        for b in bodies:
            if b["kind"] != "Closure" or ("::%s::" % probe) not in b["key"]:
                continue
            if any(f is not None and f["name"] == "probe_guard" for _, _, _, f in mirq.calls(b)):
                cands.append(b)
        if len(cands) != 1:
            r.errors.append("anchor: expected one closure calling probe_guard in the expansion of %s, found %d" % (probe, len(cands)))
            continue
        b = cands[0]
        n += 1
        # the guard call and the switch on its result
        gi, gt = [(i, t) for i, _, t, f in mirq.calls(b) if f is not None and f["name"] == "probe_guard"][0]
        res = gt["dest"]["l"]
        sw = None
        for i, bl in enumerate(b["blocks"]):
            t = bl["term"]
            if t["k"] == "switch":
                op = mirq.operand_place(t["op"])
                if op is not None and op["l"] == res and not op["p"] and i in mirq.reachable(b, gi):
                    sw = (i, t)
        ok = sw is not None
        detail = "no branch on the guard's result"
        if ok:
            i, t = sw
            false_succ = [tg for v, tg in t["targets"] if int(v) == 0]
            true_succ = [t["otherwise"]] if t.get("otherwise") is not None else []
            fall = _agg_blocks(b, "Fallthrough")
            own = _agg_blocks(b, "Guarded")
            ok_false = bool(false_succ) and bool(mirq.reachable(b, false_succ[0]) & fall)
            ok_true = bool(true_succ) and bool(mirq.reachable(b, true_succ[0]) & own)
            ok = ok_false and ok_true and bool(fall) and bool(own)
            detail = ("guard false -> later arm reachable: %s; guard true -> own arm reachable: %s" % (ok_false, ok_true))
        r.ob(ok)
        r.samples.append({probe: detail})
        if not ok:
            r.violations.append(V("MACRO-EXPAND", "%s! (expansion at macro_probe::%s)" % (probe.replace("_probe", ""), probe),
                                  "guard failure falls through to later arms",
                                  "in the closure that `%s!` expands to, an arm `pat if guard => out` must behave like a match guard: when the "
                                  "guard is false the token is still offered to the following arms (here: `Tok::Ident(s) => Out::Fallthrough(s)`), "
                                  "and when it is true the arm's own output is produced; found: %s - a token matching an earlier pattern whose "
                                  "guard fails would be rejected although a later arm accepts it" % (probe.replace("_probe", ""), detail),
                                  "src/lib.rs", None))
    r.explanation = ("the expansions of select! and select_ref! at %d probe call sites (macro_probe/src/lib.rs, type-checked against the current "
                     "tree, MIR analysed, nothing run): a failed arm guard reaches the later arms, a successful one the arm's own output" % n)
    r.nontrivial = n
    if facts is not None:
        r.require_floor(n, facts, "MACRO-EXPAND.probes", "macro expansion probes")
    return r

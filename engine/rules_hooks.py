"""HOOKS: who may move the cursor / write the error lists, and whether each such primitive
calls the Inspector hook that goes with it (C18, C05, C15 conformance of InputRef primitives)."""
import mirq
from mirq import calls, assigns, callee_path, Prov, fmt_roots, field_path
from report import RuleResult, V
import floors
import hooks_table as HT


def loc(b, line=None):
    return b["file"], (line if line is not None else b["line"])


def last_field(place):
    for e in reversed(place["p"]):
        if isinstance(e, dict) and "f" in e:
            return e
    return None


def is_field(place, adt, name):
    e = last_field(place)
    return e is not None and e.get("a") == adt and e.get("n") == name and place["p"] and place["p"][-1] is e


def has_field(place, adt, name):
    return any(isinstance(e, dict) and e.get("a") == adt and e.get("n") == name for e in place["p"])


def cursor_events(b):
    ev = []
    for _, bl, s in assigns(b):
        if is_field(s["place"], "input::InputRef", "cursor"):
            ev.append(("assign", s.get("line")))
        rv = s["rv"]
        if rv["k"] in ("ref", "rawptr") and rv.get("mut") and is_field(rv["place"], "input::InputRef", "cursor"):
            ev.append(("mutborrow", s.get("line")))
        if rv["k"] == "agg" and rv.get("ak") == "adt" and rv.get("adt") == "input::InputRef":
            ev.append(("construct", s.get("line")))
    for _, bl, t, f in calls(b):
        if is_field(t["dest"], "input::InputRef", "cursor"):
            ev.append(("assign", bl["line"]))
    return ev


def secondary_events(b):
    """Mutable uses of Errors.secondary: (&mut errors.secondary) passed to a callee, or moved out."""
    ev = []
    holders = {}
    for _, bl, s in assigns(b):
        rv = s["rv"]
        if rv["k"] in ("ref", "rawptr") and rv.get("mut") and has_field(rv["place"], "input::Errors", "secondary") and not s["place"]["p"]:
            holders[s["place"]["l"]] = s.get("line")
        if rv["k"] == "use" and "m" in rv["op"] and has_field(rv["op"]["m"], "input::Errors", "secondary"):
            if not s["place"]["p"]:
                holders[s["place"]["l"]] = s.get("line")
        if has_field(s["place"], "input::Errors", "secondary") and is_field(s["place"], "input::Errors", "secondary"):
            ev.append(("assign", s.get("line")))
    changed = True
    while changed:
        changed = False
        for _, bl, s in assigns(b):
            rv = s["rv"]
            src = None
            if rv["k"] == "use":
                src = mirq.operand_place(rv["op"])
            elif rv["k"] in ("ref", "copyderef") and (rv["k"] == "copyderef" or rv.get("mut")):
                src = rv["place"]
            if src is not None and src["l"] in holders and not s["place"]["p"] and s["place"]["l"] not in holders:
                if all(e == "*" for e in src["p"]):
                    holders[s["place"]["l"]] = holders[src["l"]]
                    changed = True
    for _, bl, t, f in calls(b):
        for a in t["args"]:
            pl = mirq.operand_place(a["op"])
            if pl is not None and pl["l"] in holders and all(e == "*" for e in pl["p"]):
                ev.append(((f["name"] if f else "<indirect>"), bl["line"]))
    return ev


def _advanced_locals(b):
    advanced = set()
    for _, bl, t, f in calls(b):
        if f is not None and f.get("trait") in ("input::Input", "input::ValueInput", "input::BorrowInput") and f["name"] in ("next", "next_maybe", "next_ref") and len(t["args"]) > 1:
            dp = mirq.direct_place(b, t["args"][1]["op"])
            if dp is not None and not dp["p"]:
                advanced.add(dp["l"])
    return advanced


def _structurally_hooked_reader(b):
    """A body outside the reviewed table is accepted iff it is an InputRef method (no closure), never builds an InputRef, every
    `&mut self.cursor` goes straight into the cursor argument of Input::next*, and every assignment to the cursor stores a
    local that Input::next* advanced.  HOOKS-TOKEN then decides the on_token pairing on all its paths."""
    if b.get("impl_self_adt") != "input::InputRef" or b["kind"] == "Closure":
        return False
    advanced = _advanced_locals(b)
    next_cursor_args = set()
    for _, bl, t, f in calls(b):
        if f is not None and f.get("trait") in ("input::Input", "input::ValueInput", "input::BorrowInput") and f["name"] in ("next", "next_maybe", "next_ref") and len(t["args"]) > 1:
            pl = mirq.operand_place(t["args"][1]["op"])
            if pl is not None and not pl["p"]:
                next_cursor_args.add(pl["l"])
    n = 0
    for _, bl, s in assigns(b):
        rv = s["rv"]
        if rv["k"] == "agg" and rv.get("ak") == "adt" and rv.get("adt") == "input::InputRef":
            return False
        if rv["k"] in ("ref", "rawptr") and rv.get("mut") and is_field(rv["place"], "input::InputRef", "cursor"):
            # the borrow must be the temp handed to Input::next* (two-phase borrows may re-borrow once)
            dst = s["place"]
            if dst["p"]:
                return False
            holders = {dst["l"]}
            for _, _, s2 in assigns(b):
                r2 = s2["rv"]
                if r2["k"] in ("ref", "rawptr") and r2["place"]["l"] in holders and all(e == "*" for e in r2["place"]["p"]) and not s2["place"]["p"]:
                    holders.add(s2["place"]["l"])
                if r2["k"] == "use":
                    op = mirq.operand_place(r2["op"])
                    if op is not None and op["l"] in holders and not op["p"] and not s2["place"]["p"]:
                        holders.add(s2["place"]["l"])
            if not (holders & next_cursor_args):
                return False
            # and nothing else receives it
            for _, bl2, t2, f2 in calls(b):
                for ai, a in enumerate(t2["args"]):
                    pl = mirq.operand_place(a["op"])
                    if pl is not None and pl["l"] in holders:
                        isnext = f2 is not None and f2.get("trait") in ("input::Input", "input::ValueInput", "input::BorrowInput") and f2["name"] in ("next", "next_maybe", "next_ref") and ai == 1
                        if not isnext:
                            return False
            n += 1
        if is_field(s["place"], "input::InputRef", "cursor"):
            if rv["k"] != "use":
                return False
            sp = mirq.direct_place(b, rv["op"])
            if sp is None or sp["p"] or sp["l"] not in advanced:
                return False
            n += 1
    for _, bl, t, f in calls(b):
        if is_field(t["dest"], "input::InputRef", "cursor"):
            return False
    return n > 0


def rule_who_may_write(facts):
    r = RuleResult("HOOKS-WRITERS")
    seen = {}
    for b in facts.bodies:
        evs = cursor_events(b)
        if evs:
            seen[b["qname"]] = sorted({e[0] for e in evs})
    structural = {}
    for q, kinds in sorted(seen.items()):
        allowed = HT.CURSOR_WRITERS.get(q)
        if allowed is None and all(_structurally_hooked_reader(b_) for b_ in facts.by_qname[q]):
            # a new InputRef method whose only cursor effects are token advances through Input::next* (HOOKS-TOKEN decides, on
            # every path of that body, that on_token accompanies each advance): no unhooked movement is possible
            structural[q] = kinds
            r.ob(True)
            continue
        for k in kinds:
            ok = allowed is not None and k in allowed[0]
            r.ob(ok)
            if not ok:
                b = facts.by_qname[q][0]
                r.violations.append(V("HOOKS-WRITERS", q, "cursor %s outside the hooked primitives" % k,
                                      "%s performs `%s` on InputRef.cursor but is not one of the primitives that pair cursor "
                                      "movement with Inspector hooks (spec/hooks_table.py): user state can get out of step with the "
                                      "position" % (q, k), *loc(b)))
    # every assignment to the cursor is one of: token advance (a local advanced by Input::next*), checkpoint
    # restore (from a Checkpoint parameter, with on_rewind in the same body), copy-back from a child input, or the
    # named byte-skip exception.  Anything else (e.g. putting back a saved copy of the cursor) moves the position
    # without telling the Inspector.
    for b in facts.bodies:
        if b["qname"] not in HT.CURSOR_WRITERS:
            continue
        pv = Prov(b)
        advanced = set()
        for _, bl, t, f in calls(b):
            if f is not None and f.get("trait") in ("input::Input", "input::ValueInput", "input::BorrowInput") and f["name"] in ("next", "next_maybe", "next_ref") and len(t["args"]) > 1:
                dp = mirq.direct_place(b, t["args"][1]["op"])
                if dp is not None and not dp["p"]:
                    advanced.add(dp["l"])
        has_rewind_hook = any(f is not None and f["name"] == "on_rewind" for _, _, _, f in calls(b))
        child_inputs = {s_["place"]["l"] for _, _, s_ in assigns(b) if s_["rv"]["k"] == "agg" and s_["rv"].get("adt") == "input::InputRef"}
        for _, bl, s_ in assigns(b):
            if not is_field(s_["place"], "input::InputRef", "cursor"):
                continue
            rv = s_["rv"]
            cls = "?"
            if rv["k"] == "use":
                sp = mirq.direct_place(b, rv["op"])
                if sp is not None and sp["l"] in advanced and not sp["p"]:
                    cls = "token-advance"
                elif sp is not None and sp["l"] in child_inputs and is_field(sp, "input::InputRef", "cursor"):
                    cls = "child-copy-back"
                elif sp is not None and 1 <= sp["l"] <= b["arg_count"] and any(isinstance(e, dict) and e.get("a") == "input::Checkpoint" for e in sp["p"]):
                    cls = "checkpoint-restore" if has_rewind_hook else "checkpoint-restore-without-on_rewind"
            elif rv["k"] == "bin" or (rv["k"] == "use" and False):
                cls = "byte-skip" if b["qname"].endswith("skip_bytes") else "?"
            if rv["k"] == "use" and cls == "?":
                src = pv.of_rvalue(rv, 0)
                if any(x[0] == "field" and x[1][0] == "bin" for x in src) and b["qname"].endswith("skip_bytes"):
                    cls = "byte-skip"
            ok = cls in ("token-advance", "child-copy-back", "checkpoint-restore", "byte-skip")
            r.ob(ok)
            if not ok:
                r.violations.append(V("HOOKS-WRITERS", b["qname"], "unhooked cursor assignment (%s)" % cls,
                                      "%s assigns InputRef.cursor from %s, which is neither a token advance hooked by on_token, nor a "
                                      "checkpoint restore hooked by on_rewind, nor the copy-back of a child input: the Inspector is not told "
                                      "that the position changed" % (b["qname"], fmt_roots(pv.of_rvalue(rv, 0))[:160]), b["file"], s_.get("line")))
    # a listed writer that no longer writes the cursor (it delegates to another listed writer, or was removed) is not a problem;
    # fail closed only when (almost) none of the listed writers is seen any more, i.e. the analysis lost the field
    missing = [q for q in HT.CURSOR_WRITERS if q not in seen and not HT.CURSOR_WRITERS[q][2]]
    if len(missing) > len(HT.CURSOR_WRITERS) // 2:
        r.errors.append("anchors %s: most listed cursor writers no longer touch the cursor (analysis lost the field?)" % missing[:4])
    r.info = dict(getattr(r, "info", {}) or {}, writers_no_longer_writing=missing)
    sec = {}
    for b in facts.bodies:
        evs = secondary_events(b)
        if evs:
            sec[b["qname"]] = sorted({e[0] for e in evs})
    for q, kinds in sorted(sec.items()):
        allowed = HT.SECONDARY_WRITERS.get(q)
        for k in kinds:
            ok = allowed is not None and k in allowed[0]
            r.ob(ok)
            if not ok:
                b = facts.by_qname[q][0]
                r.violations.append(V("HOOKS-WRITERS", q, "errors.secondary %s" % k,
                                      "%s applies `%s` to the list of emitted errors but is not one of its reviewed writers "
                                      "(emit/rewind/with_input/...): emissions could be lost or duplicated" % (q, k), *loc(b)))
    r.explanation = ("who-may-write: InputRef.cursor is assigned / mutably borrowed / constructed only in %d reviewed primitives "
                     "(%s); Errors.secondary is mutated only in %d reviewed functions (%s)"
                     % (len(seen), ", ".join(sorted(x.split("::")[-1] for x in seen)), len(sec),
                        ", ".join(sorted(x.split("::")[-1] for x in sec))))
    r.nontrivial = len(seen) + len(sec)
    r.info = {"cursor": seen, "secondary": sec, "unlisted_token_readers_accepted_structurally": structural}
    r.samples = [{"fn": q, "cursor_events": k} for q, k in sorted(seen.items())[:3]]
    r.require_floor(len(seen), facts, "HOOKS.cursor_writers", "functions touching InputRef.cursor")
    r.require_floor(len(sec), facts, "HOOKS.secondary_writers", "functions mutating errors.secondary")
    return r


# ------------------------------------------------------------------ token readers

def _hooks_iff_some(h, argl):
    """Helper body `h` receiving an Option<token> in local `argl`: does it call on_token exactly on the paths where that option is
    Some (and never touch the cursor)?  Then a call to it stands for the inline `if let Some(t) = &token { on_token(t) }`."""
    if cursor_events(h):
        return False
    refs = {}
    for _, bl, s in assigns(h):
        rv = s["rv"]
        if rv["k"] == "ref" and rv["place"]["l"] == argl and not rv["place"]["p"] and not s["place"]["p"]:
            refs[s["place"]["l"]] = argl
    seen_some = False
    try:
        ps = mirq.paths(h)
    except RuntimeError:
        return False
    for path in ps:
        variant = "?"
        hooked = False
        for bb, idx in path:
            bl = h["blocks"][bb]
            t = bl["term"]
            if t["k"] == "call":
                f = mirq.callee_of(t)
                if f is not None and f["name"] == "on_token" and f.get("trait") == "inspector::Inspector":
                    hooked = True
            if t["k"] == "switch" and idx is not None and idx != "loop":
                op = mirq.operand_place(t["op"])
                if op is not None:
                    src = None
                    for s in bl["stmts"]:
                        if s["k"] == "assign" and s["place"]["l"] == op["l"] and s["rv"]["k"] == "discr":
                            src = s["rv"]["place"]
                    if src is not None and (src["l"] == argl or refs.get(src["l"]) == argl):
                        v = mirq.switch_choice(h, bb, idx)
                        listed = [x for x, _ in t["targets"]]
                        variant = "Some" if v == 1 else ("None" if v == 0 else ("None" if listed == [1] else ("Some" if listed == [0] else "?")))
        if variant == "Some":
            seen_some = True
            if not hooked:
                return False
        elif hooked:
            return False
    return seen_some


def _token_paths(b, facts=None):
    """Enumerate paths; per path: advanced?, token variant (Some/None/?), on_token called with the token?"""
    res = []
    pv = Prov(b)
    # locals holding the token returned by Input::next*
    tok_locals = set()
    adv_blocks = {}
    for i, bl, t, f in calls(b):
        if f is not None and f.get("trait") in ("input::Input", "input::ValueInput", "input::BorrowInput") and f["name"] in ("next", "next_maybe", "next_ref"):
            if not t["dest"]["p"]:
                tok_locals.add(t["dest"]["l"])
            dp = mirq.direct_place(b, t["args"][1]["op"]) if len(t["args"]) > 1 else None
            real = dp is not None and is_field(dp, "input::InputRef", "cursor")
            adv_blocks[i] = real
    # refs to the token local
    refs = {}
    for _, bl, s in assigns(b):
        rv = s["rv"]
        if rv["k"] == "ref" and rv["place"]["l"] in tok_locals and not s["place"]["p"]:
            refs[s["place"]["l"]] = rv["place"]["l"]
    # a private InputRef helper that is handed the token and reports it iff it is Some (extracted tail of the readers)
    helper_calls = set()
    if facts is not None:
        for i, bl, t, f in calls(b):
            if f is None or f.get("krate") != "chumsky" or f.get("self_adt") != "input::InputRef":
                continue
            hs = facts.by_qname.get("input::InputRef::" + f["name"]) or []
            if len(hs) != 1:
                continue
            for ai, a in enumerate(t["args"]):
                dp = mirq.direct_place(b, a["op"])
                if dp is not None and not dp["p"] and dp["l"] in tok_locals and _hooks_iff_some(hs[0], ai + 1):
                    helper_calls.add(i)
    for path in mirq.paths(b):
        advanced = False
        variant = "?"
        hooked = False
        cond_hook = False
        wrote_cursor = False
        for (bb, idx) in path:
            bl = b["blocks"][bb]
            for s in bl["stmts"]:
                if s["k"] == "assign" and is_field(s["place"], "input::InputRef", "cursor"):
                    wrote_cursor = True
            t = bl["term"]
            if t["k"] == "call":
                f = mirq.callee_of(t)
                if bb in adv_blocks and adv_blocks[bb]:
                    advanced = True
                if f is not None and f["name"] == "on_token" and f.get("trait") == "inspector::Inspector":
                    hooked = True
                if bb in helper_calls:
                    hooked = True
                    cond_hook = True
            if t["k"] == "switch" and idx is not None and idx != "loop":
                # switch on discriminant of the token?
                op = mirq.operand_place(t["op"])
                if op is not None:
                    dl = op["l"]
                    src = None
                    for s in bl["stmts"]:
                        if s["k"] == "assign" and s["place"]["l"] == dl and s["rv"]["k"] == "discr":
                            src = s["rv"]["place"]
                    if src is not None and (src["l"] in tok_locals or refs.get(src["l"]) in tok_locals):
                        v = mirq.switch_choice(b, bb, idx)
                        if v == 1:
                            variant = "Some"
                        elif v == 0:
                            variant = "None"
                        else:
                            # otherwise branch: the complement of the listed values
                            listed = [x for x, _ in t["targets"]]
                            variant = "None" if listed == [1] else ("Some" if listed == [0] else "?")
        if cond_hook and variant == "None":
            hooked = False          # the helper reports only a Some
        res.append((advanced or wrote_cursor, variant, hooked))
    return res


def rule_token_hooks(facts):
    r = RuleResult("HOOKS-TOKEN")
    readers = []
    for b in facts.bodies:
        if b.get("impl_self_adt") != "input::InputRef" or b["kind"] == "Closure":
            continue
        uses_next = any(f is not None and f.get("trait") in ("input::Input", "input::ValueInput", "input::BorrowInput")
                        and f["name"] in ("next", "next_maybe", "next_ref") for _, _, _, f in calls(b))
        if not uses_next:
            continue
        readers.append(b)
        try:
            ps = _token_paths(b, facts)
        except RuntimeError as e:
            r.errors.append(str(e))
            continue
        moving = [p for p in ps if p[0]]
        for adv, variant, hooked in ps:
            if adv and variant != "None":
                r.ob(hooked)
                if not hooked:
                    r.violations.append(V("HOOKS-TOKEN", b["qname"], "advance without on_token",
                                          "a path of %s moves the cursor past a token (token=%s on the path) without calling "
                                          "Inspector::on_token: user state no longer reflects the tokens consumed" % (b["qname"], variant), *loc(b)))
            if hooked and variant == "None":
                r.ob(False)
                r.violations.append(V("HOOKS-TOKEN", b["qname"], "on_token without a token",
                                      "on_token is called on a path where no token was read", *loc(b)))
            if hooked and not adv:
                r.ob(False)
                r.violations.append(V("HOOKS-TOKEN", b["qname"], "on_token without advancing",
                                      "on_token is called on a path that does not move the real cursor (peek-like): the inspector "
                                      "would count a token that was not consumed", *loc(b)))
        r.info[b["qname"]] = {"paths": len(ps), "moving_paths": len(moving)}
    r.explanation = ("in each of the %d InputRef methods that call Input::next/next_maybe/next_ref: every CFG path that advances the real "
                     "cursor with a token calls Inspector::on_token, and no path calls it without advancing (peek*, end-of-input)"
                     % len(readers))
    r.nontrivial = sum(1 for b in readers if r.info.get(b["qname"], {}).get("moving_paths"))
    r.samples = [{"fn": b["qname"], **r.info.get(b["qname"], {})} for b in readers[:4]]
    r.require_floor(len(readers), facts, "HOOKS.token_reader_bodies", "InputRef bodies calling Input::next*")
    r.require_floor(r.nontrivial, facts, "HOOKS.moving_readers", "token readers that move the cursor")
    return r


# ------------------------------------------------------------------ save / rewind conformance

def on_all_paths(b, blocks):
    """Does every path from entry to a return pass through one of `blocks`?"""
    rets = set(mirq.return_blocks(b))
    return not (mirq.reachable(b, 0, avoid=set(blocks)) & rets)


def _one_call(b, pred):
    cs = [(i, bl, t, f) for i, bl, t, f in calls(b) if pred(f)]
    return cs


def rule_save_rewind(facts):
    r = RuleResult("HOOKS-SAVE-REWIND")
    # ---- save
    b = facts.one("input::InputRef::save")
    pv = Prov(b)
    agg = [s for _, _, s in assigns(b) if s["rv"]["k"] == "agg" and s["rv"].get("adt") == "input::Checkpoint"]
    ok = len(agg) == 1
    detail = "no Checkpoint aggregate"
    if ok:
        rv = agg[0]["rv"]
        d = dict(zip(rv["fields"], rv["ops"]))
        cur = pv.of_operand(d["cursor"])
        cnt = pv.of_operand(d["err_count"])
        insp = pv.of_operand(d["inspector"])
        cur_ok = all(x[0] == "call" and x[1] == "cursor" and any(("arg", 1) in a for a in x[3]) for x in cur) and bool(cur)
        cnt_ok = all(x[0] == "call" and x[1] == "len" and any(any(y[0] == "arg" and y[1] == 1 and y[2:] == ("errors", "secondary") for y in a) for a in x[3]) for x in cnt) and bool(cnt)
        insp_ok = all(x[0] == "call" and x[1] == "on_save" and x[2] == "inspector::Inspector" for x in insp) and bool(insp)
        # on_save receives this very cursor and the parse state
        hook_ok = False
        for x in insp:
            if x[0] == "call" and len(x[3]) >= 2:
                st_ok = any(y[0] == "arg" and y[1] == 1 and y[2:] == ("state",) for y in x[3][0])
                c_ok = any(z[0] == "call" and z[1] == "cursor" for z in x[3][1])
                hook_ok = st_ok and c_ok
        ok = cur_ok and cnt_ok and insp_ok and hook_ok
        detail = "cursor<-%s err_count<-%s inspector<-%s" % (fmt_roots(cur), fmt_roots(cnt), fmt_roots(insp))
        r.samples.append({"save": detail})
    r.ob(ok)
    if not ok:
        r.violations.append(V("HOOKS-SAVE-REWIND", b["qname"], "checkpoint contents",
                              "save() must record (current cursor, errors.secondary.len(), state.on_save(&cursor)); found %s" % detail, *loc(b)))
    # ---- rewind / rewind_input
    for q, want_trunc in (("input::InputRef::rewind", True), ("input::InputRef::rewind_input", False)):
        bs = facts.find(q)
        if len(bs) != 1:
            r.errors.append("anchor %s: %d bodies" % (q, len(bs)))
            continue
        b = bs[0]
        pv = Prov(b)
        trunc = _one_call(b, lambda f: f is not None and f["name"] in ("truncate", "clear", "drain", "set_len", "pop", "split_off", "retain"))
        hook = _one_call(b, lambda f: f is not None and f["name"] == "on_rewind" and f.get("trait") == "inspector::Inspector")
        cw = [s for _, _, s in assigns(b) if is_field(s["place"], "input::InputRef", "cursor")]
        ok_t = True
        dt = ""
        if want_trunc:
            ok_t = len(trunc) == 1 and trunc[0][3]["name"] == "truncate"
            if ok_t:
                t = trunc[0][2]
                a0 = pv.of_operand(t["args"][0]["op"])
                a1 = pv.of_operand(t["args"][1]["op"])
                ok_t = any(x[0] == "arg" and x[1] == 1 and x[2:] == ("errors", "secondary") for x in a0) and \
                    all(x[0] == "arg" and x[1] == 2 and x[2:] == ("err_count",) for x in a1) and bool(a1)
                dt = "truncate(%s, %s)" % (fmt_roots(a0), fmt_roots(a1))
        else:
            ok_t = len(trunc) == 0
            dt = "no truncation" if ok_t else "truncates"
        # delegation: rewind() may hand the position/inspector part to rewind_input(self, checkpoint) (checked on its own below)
        deleg = _one_call(b, lambda f: f is not None and f["name"] == "rewind_input" and (f.get("self_ty") or "").startswith("input::InputRef"))
        if want_trunc and len(deleg) == 1 and not hook and not cw:
            t = deleg[0][2]
            a0 = pv.of_operand(t["args"][0]["op"])
            a1 = pv.of_operand(t["args"][1]["op"])
            d_ok = a0 == {("arg", 1)} and a1 == {("arg", 2)} and on_all_paths(b, [deleg[0][0]])
            allp = (not (ok_t and want_trunc)) or on_all_paths(b, [trunc[0][0]])
            ok = ok_t and d_ok and allp
            r.ob(ok)
            r.samples.append({q.split("::")[-1]: "%s; delegates to rewind_input(self, checkpoint) on every path=%s" % (dt, d_ok)})
            if not ok:
                r.violations.append(V("HOOKS-SAVE-REWIND", q, "rewind conformance",
                                      "rewind must truncate errors.secondary to checkpoint.err_count and hand the same checkpoint to "
                                      "rewind_input on every path; found: %s; rewind_input(%s, %s)" % (dt, fmt_roots(a0), fmt_roots(a1)), *loc(b)))
            continue
        ok_h = len(hook) == 1
        dh = ""
        if ok_h:
            t = hook[0][2]
            a0 = pv.of_operand(t["args"][0]["op"])
            a1 = pv.of_operand(t["args"][1]["op"])
            ok_h = any(x[0] == "arg" and x[1] == 1 and x[2:] == ("state",) for x in a0) and a1 == {("arg", 2)}
            dh = "on_rewind(%s, %s)" % (fmt_roots(a0), fmt_roots(a1))
        ok_c = len(cw) == 1
        dc = ""
        if ok_c:
            src = pv.of_rvalue(cw[0]["rv"], 0)
            ok_c = src == {("arg", 2, "cursor", "inner")}
            dc = "cursor<-%s" % fmt_roots(src)
        # ... and on EVERY path (no early return around the bookkeeping)
        allp = True
        if ok_t and want_trunc:
            allp = allp and on_all_paths(b, [trunc[0][0]])
        if ok_h:
            allp = allp and on_all_paths(b, [hook[0][0]])
        if ok_c:
            cw_blocks = [i for i, bl, s_ in assigns(b) if is_field(s_["place"], "input::InputRef", "cursor")]
            allp = allp and on_all_paths(b, cw_blocks)
        if not allp:
            dc += " [not on every path: an early return skips part of the restore]"
        ok = ok_t and ok_h and ok_c and allp
        r.ob(ok)
        r.samples.append({q.split("::")[-1]: "%s; %s; %s" % (dt, dh, dc)})
        if not ok:
            r.violations.append(V("HOOKS-SAVE-REWIND", q, "rewind conformance",
                                  "%s must %s, call state.on_rewind(&checkpoint) with the same checkpoint and restore the cursor "
                                  "from checkpoint.cursor; found: %s; %s; %s"
                                  % (q.split("::")[-1], "truncate errors.secondary to checkpoint.err_count" if want_trunc else "NOT truncate the error list",
                                     dt, dh or "%d on_rewind calls" % len(hook), dc or "%d cursor writes" % len(cw)), *loc(b)))
    # rewind must not touch errors.alt (the pending error survives rewinds)
    for q in ("input::InputRef::rewind", "input::InputRef::rewind_input", "input::InputRef::save"):
        for b in facts.find(q):
            bad = [s for _, _, s in assigns(b) if has_field(s["place"], "input::Errors", "alt")]
            bad += [1 for _, _, s in assigns(b) if s["rv"]["k"] in ("ref",) and s["rv"].get("mut") and has_field(s["rv"]["place"], "input::Errors", "alt")]
            r.ob(not bad)
            if bad:
                r.violations.append(V("HOOKS-SAVE-REWIND", q, "touches errors.alt",
                                      "%s writes the pending primary error: it must survive rewinds" % q, *loc(b)))
    # ---- emit: exactly one push
    b = facts.one("input::InputRef::emit")
    pushes = _one_call(b, lambda f: f is not None and f["name"] in ("push", "insert", "extend", "append", "truncate", "clear", "pop"))
    ok = len(pushes) == 1 and pushes[0][3]["name"] == "push" and on_all_paths(b, [pushes[0][0]])
    r.ob(ok)
    if not ok:
        r.violations.append(V("HOOKS-SAVE-REWIND", b["qname"], "emit appends exactly one error",
                              "emit() must push exactly one element to errors.secondary; found %s" % [p[3]["name"] for p in pushes], *loc(b)))
    r.explanation = ("conformance of the checkpoint primitives: save() records (cursor(), secondary.len(), on_save(state,&cursor)); rewind() "
                     "truncates secondary to checkpoint.err_count, calls on_rewind(state,&checkpoint), restores cursor from the checkpoint; "
                     "rewind_input() does the same without truncation; none of them touches errors.alt; emit() pushes exactly once")
    r.nontrivial = 4
    return r


def rule_sub_inputs(facts):
    """with_ctx / with_state / with_input build the child InputRef from the right pieces."""
    r = RuleResult("SUB-INPUT")
    spec = {
        # method: {field: acceptable root predicate description}
        "with_ctx": {"cursor": ("arg", 1, "cursor"), "cache": ("arg", 1, "cache"), "state": ("arg", 1, "state"),
                     "ctx": ("arg", 2), "errors": ("arg", 1, "errors"), "memos": ("arg", 1, "memos")},
        "with_state": {"cursor": ("arg", 1, "cursor"), "cache": ("arg", 1, "cache"), "state": ("arg", 2),
                       "ctx": ("arg", 1, "ctx"), "errors": ("arg", 1, "errors"), "memos": ("arg", 1, "memos")},
        "with_input": {"cursor": ("arg", 2), "cache": ("arg", 3), "state": ("arg", 1, "state"),
                       "ctx": ("arg", 1, "ctx"), "errors": ("arg", 4), "memos": ("arg", 6)},
    }
    for m, want in spec.items():
        b = facts.one("input::InputRef::" + m)
        pv = Prov(b)
        aggs = [s for _, _, s in assigns(b) if s["rv"]["k"] == "agg" and s["rv"].get("adt") == "input::InputRef"]
        if len(aggs) != 1:
            r.ob(False)
            r.violations.append(V("SUB-INPUT", b["qname"], "child input construction", "expected one InputRef aggregate, found %d" % len(aggs), *loc(b)))
            continue
        rv = aggs[0]["rv"]
        for fld, op in zip(rv["fields"], rv["ops"]):
            rs = pv.of_operand(op)
            w = want.get(fld)
            ok = w is not None and rs == {w}
            r.ob(ok)
            if not ok:
                r.violations.append(V("SUB-INPUT", b["qname"], "field %s of the child input" % fld,
                                      "%s builds the child input's `%s` from %s, expected %s" % (m, fld, fmt_roots(rs), mirq.fmt_root(w) if w else "?"), *loc(b)))
        # copy-back: only the cursor (with_ctx/with_state); nothing but errors for with_input
        writes = [(field_path(s["place"]), pv.of_rvalue(s["rv"], 0)) for _, _, s in assigns(b)
                  if s["place"]["l"] == 1 and "*" in mirq.place_fields(s["place"])]
        if m in ("with_ctx", "with_state"):
            agg_local = aggs[0]["place"]["l"]
            cws = [s for _, _, s in assigns(b) if is_field(s["place"], "input::InputRef", "cursor") and s["place"]["l"] == 1]
            src_ok = False
            if len(cws) == 1 and cws[0]["rv"]["k"] == "use":
                sp = mirq.direct_place(b, cws[0]["rv"]["op"])
                src_ok = sp is not None and sp["l"] == agg_local and is_field(sp, "input::InputRef", "cursor")
            ok = len(writes) == 1 and writes[0][0] == ["cursor"] and src_ok
            r.ob(ok)
            if not ok:
                r.violations.append(V("SUB-INPUT", b["qname"], "copy-back",
                                      "%s must copy back exactly the child's cursor to the parent; found writes %s"
                                      % (m, [(".".join(w[0]), fmt_roots(w[1])) for w in writes]), *loc(b)))
        else:
            bad = [w for w in writes if w[0][:1] != ["errors"]]
            r.ob(not bad)
            if bad:
                r.violations.append(V("SUB-INPUT", b["qname"], "outer input written",
                                      "with_input writes %s of the OUTER input: the outer cursor must move only by what the "
                                      "outer parser consumed" % [".".join(w[0]) for w in bad], *loc(b)))
        r.samples.append({m: {f: fmt_roots(pv.of_operand(o)) for f, o in zip(rv["fields"], rv["ops"])}})
    # with_input: inner secondary drained into outer exactly once (drain + extend), inner alt re-homed at the outer cursor
    b = facts.one("input::InputRef::with_input")
    # decided on the effects normal form (engine/nf.py): `outer.extend(inner.drain(..).map(|e| Located::at(outer.cursor, e.err)))` and the
    # explicit loop `for e in inner.drain(..) { outer.push(Located::at(outer.cursor, e.err)) }` are the same single effect
    from rules_types import effects_nf
    import re as _re
    eff = effects_nf(facts, b)
    moves = [x for x in eff if _re.match(r"^(push|extend|append|extend_from_slice|insert)\(arg1\.errors\.secondary\b", x)]
    want_rx = r"^push\(arg1\.errors\.secondary, Located\{pos: arg1\.cursor, err: elem\(drain\((arg\d+)\.secondary, RangeFull\{\}\)\)\.err\}\) \[each\]$"
    ok = len(moves) == 1 and _re.match(want_rx, moves[0]) is not None
    if ok:
        # the drained list is the inner input's: the Errors value the child InputRef was built with
        inner = _re.match(want_rx, moves[0]).group(1)
        ok = any(("errors: %s," % inner) in x and x.startswith("call") for x in eff)
    r.ob(ok)
    if not ok:
        r.violations.append(V("SUB-INPUT", b["qname"], "inner emissions moved to the outer list once",
                              "with_input must move every secondary error of the inner input to the outer list exactly once, on every path, "
                              "re-anchored at the outer cursor (`push(outer.secondary, Located::at(outer.cursor, e.err))` for each e of "
                              "`inner.secondary.drain(..)`); found: %s" % (moves or eff), *loc(b)))
    # WithState::go passes a fresh clone of self.state
    ws = facts.find("combinator::WithState[Parser]::go")
    if len(ws) != 1:
        r.errors.append("anchor combinator::WithState[Parser]::go: %d bodies" % len(ws))
    else:
        b = ws[0]
        pv = Prov(b)
        cs = [(bl, t, f) for _, bl, t, f in calls(b) if f is not None and f["name"] == "with_state"]
        ok = len(cs) == 1
        d = ""
        if ok:
            st = pv.of_operand(cs[0][1]["args"][1]["op"])
            # the argument is a &mut to a local holding Clone::clone(&self.state): Prov treats clone as transparent,
            # so demand that a clone call on self.state exists and that the root is self.state
            clones = [t for _, _, t, f in calls(b) if f is not None and f["name"] == "clone" and f.get("trait") == "std::clone::Clone"
                      and pv.of_operand(t["args"][0]["op"]) == {("arg", 1, "state")}]
            holder_is_clone = False
            for t in clones:
                dl = t["dest"]["l"]
                # argument of with_state derives from a (mutable ref to) that destination local
                a = mirq.operand_place(cs[0][1]["args"][1]["op"])
                chain = {a["l"]} if a else set()
                for _ in range(4):
                    for _, _, s in assigns(b):
                        if s["place"]["l"] in chain and s["rv"]["k"] in ("ref", "use"):
                            src = s["rv"].get("place") or mirq.operand_place(s["rv"]["op"])
                            if src:
                                chain.add(src["l"])
                if dl in chain:
                    holder_is_clone = True
            ok = st == {("arg", 1, "state")} and holder_is_clone
            d = "with_state(%s) clone-of-self.state=%s" % (fmt_roots(st), holder_is_clone)
        r.ob(ok)
        r.samples.append({"WithState::go": d})
        if not ok:
            r.violations.append(V("SUB-INPUT", b["uname"], "fresh state per invocation",
                                  "WithState::go must hand with_state a fresh clone of self.state on every invocation; found %s" % d, *loc(b)))
    r.explanation = ("with_ctx/with_state/with_input build the child InputRef field-by-field from the specified sources (ctx / state / "
                     "cursor+cache+errors+memos swapped, everything else shared), copy back only the cursor (with_ctx, with_state) or "
                     "nothing of the outer cursor (with_input); with_input drains inner emissions once; WithState::go passes a fresh "
                     "clone of self.state")
    r.nontrivial = 3 * 6 + 5
    return r

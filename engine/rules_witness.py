"""WITNESS: compile-fail witnesses (rustdoc `compile_fail,E0xxx`) + compiling twins, decided by rustc's type
checker on /repo's current tree.  Thorough tier only (one nightly doctest build, ~1 min)."""
import os
import re
import shutil
import subprocess
import tempfile

import facts as factsmod
from report import RuleResult, V

VERIF = os.path.dirname(os.path.dirname(os.path.abspath(__file__)))

WITNESS_PROPS = {
    "W1": ["C03"], "W1b": ["C03"], "W2": ["C03", "C04"], "W3": ["C18", "C05"], "W4": ["C08", "C14"],
    "W5": ["C16"], "W6": ["C07"], "W7": ["C13"], "W8": ["C15"],
}
_cache = {}


def run_all():
    repo = factsmod.REPO
    if repo in _cache:
        return _cache[repo]
    tmp = tempfile.mkdtemp(prefix="verif-witness-")
    try:
        shutil.copytree(os.path.join(VERIF, "witness", "src"), os.path.join(tmp, "src"))
        toml = open(os.path.join(VERIF, "witness", "Cargo.toml")).read().replace('path = "/repo"', 'path = "%s"' % repo)
        open(os.path.join(tmp, "Cargo.toml"), "w").write(toml)
        shutil.copy(os.path.join(repo, "Cargo.lock"), os.path.join(tmp, "Cargo.lock"))
        env = dict(os.environ, CARGO_NET_OFFLINE="true", CARGO_TARGET_DIR=os.path.join(tmp, "target"))
        env.pop("RUSTC_WORKSPACE_WRAPPER", None)
        p = subprocess.run(["cargo", "+nightly", "test", "--doc", "--offline"], cwd=tmp, env=env,
                           stdout=subprocess.PIPE, stderr=subprocess.STDOUT, text=True)
        out = p.stdout
    finally:
        shutil.rmtree(tmp, ignore_errors=True)
    res = {}
    for m in re.finditer(r"^test src/lib\.rs - (\w+) \(line (\d+)\)( - compile fail)? \.\.\. (\w+)", out, re.M):
        res.setdefault(m.group(1), []).append({"line": int(m.group(2)), "kind": "compile_fail" if m.group(3) else "twin", "result": m.group(4)})
    _cache[repo] = (res, out)
    return _cache[repo]


def rule_witness(pid):
    r = RuleResult("WITNESS")
    res, out = run_all()
    mine = [w for w, ps in WITNESS_PROPS.items() if pid in ps]
    if not res:
        r.errors.append("witness doctests did not run: %s" % out[-600:])
        return r
    n = 0
    for w in mine:
        tests = res.get(w, [])
        if not tests:
            r.errors.append("witness %s produced no doctest result" % w)
            continue
        for t in tests:
            n += 1
            ok = t["result"] == "ok"
            r.ob(ok)
            if not ok:
                if t["kind"] == "compile_fail":
                    r.violations.append(V("WITNESS", "witness::%s" % w, "violating program compiles",
                                          "the %s compile-fail witness (witness/src/lib.rs line %d) no longer fails with its error code: "
                                          "the type-level guarantee it documents is gone" % (w, t["line"]), "witness/src/lib.rs", t["line"]))
                else:
                    r.errors.append("compiling twin of %s (line %d) does not build: witness out of date" % (w, t["line"]))
    r.explanation = ("compile-fail witnesses %s (each with a compiling twin) built by `cargo +nightly test --doc` against /repo's current "
                     "tree: the violating programs are rejected by rustc's type checker with the expected error codes (%d doctests)"
                     % (", ".join(mine), n))
    r.nontrivial = n
    r.samples = [{"witness": w, "tests": res.get(w)} for w in mine[:3]]
    return r

"""Small query library over the MIR facts: CFG utilities, call/assignment iteration,
flow-insensitive provenance ("which roots does this operand derive from"), call graph."""
import pp


# ------------------------------------------------------------------ basic iteration

def blocks(body, cleanup=False):
    for i, bl in enumerate(body["blocks"]):
        if bl["cleanup"] and not cleanup:
            continue
        yield i, bl


def callee_of(term):
    """The callee dict of a direct call terminator (None for indirect calls)."""
    if term["k"] != "call":
        return None
    func = term["func"]
    k = func.get("k")
    if k and "fn" in k:
        return k["fn"]
    return None


def calls(body, cleanup=False):
    """Yield (bb index, block, terminator, callee-dict-or-None) for every call terminator."""
    for i, bl in blocks(body, cleanup):
        t = bl["term"]
        if t["k"] == "call":
            yield i, bl, t, callee_of(t)


def assigns(body, cleanup=False):
    for i, bl in blocks(body, cleanup):
        for s in bl["stmts"]:
            if s["k"] == "assign":
                yield i, bl, s


def callee_path(f):
    """Best (resolved) path of a callee."""
    if f is None:
        return "<indirect>"
    r = f.get("resolved")
    return (r or {}).get("path") or f["path"]


def is_call_to(f, name=None, trait=None, self_adt=None, path_contains=None):
    if f is None:
        return False
    if name is not None and f["name"] != name:
        return False
    if trait is not None and f.get("trait") != trait:
        return False
    if self_adt is not None and (f.get("self_adt") or (f.get("resolved") or {}).get("self_adt")) != self_adt:
        return False
    if path_contains is not None and path_contains not in f["path"] and path_contains not in callee_path(f):
        return False
    return True


# ------------------------------------------------------------------ places

def place_fields(place):
    """List of projection steps as strings: '*', field names, '[]', 'as Variant'."""
    out = []
    for e in place["p"]:
        if e == "*":
            out.append("*")
        elif isinstance(e, dict):
            if "f" in e:
                out.append(e["n"] if e.get("n") is not None else str(e["f"]))
            elif "dc" in e:
                out.append("as " + str(e["dc"]))
            else:
                out.append("[]")
        else:
            out.append("?")
    return out


def field_path(place):
    """Field names only (derefs / downcasts / indexing dropped)."""
    return [x for x in place_fields(place) if x != "*" and not x.startswith("as ") and x not in ("[]", "?")]


def local_ty(body, l):
    return body["locals"][l]["ty"]


def local_name(body, l):
    return body["locals"][l].get("name") or "_%d" % l


def operand_place(o):
    if "c" in o:
        return o["c"]
    if "m" in o:
        return o["m"]
    return None


# ------------------------------------------------------------------ CFG

def succs(body, i, cleanup=False):
    t = body["blocks"][i]["term"]
    k = t["k"]
    out = []
    if k == "goto":
        out = [t["t"]]
    elif k == "switch":
        out = [b for _, b in t["targets"]] + [t["otherwise"]]
    elif k in ("drop", "assert"):
        out = [t["t"]]
    elif k == "call":
        if t["t"] is not None:
            out = [t["t"]]
    return out


def reachable(body, start, avoid=frozenset()):
    seen = set()
    work = [start]
    while work:
        b = work.pop()
        if b in seen or b in avoid:
            continue
        seen.add(b)
        work.extend(succs(body, b))
    return seen


def return_blocks(body):
    return [i for i, bl in blocks(body) if bl["term"]["k"] == "ret"]


def preds(body):
    p = {}
    for i, _ in blocks(body):
        for s in succs(body, i):
            p.setdefault(s, set()).add(i)
    return p


def dominators(body):
    """Classic iterative dominator sets over normal edges from bb0."""
    nodes = sorted(reachable(body, 0))
    pr = preds(body)
    dom = {n: set(nodes) for n in nodes}
    dom[0] = {0}
    changed = True
    while changed:
        changed = False
        for n in nodes:
            if n == 0:
                continue
            ps = [p for p in pr.get(n, ()) if p in dom]
            new = set(nodes)
            for p in ps:
                new &= dom[p]
            new = new | {n}
            if new != dom[n]:
                dom[n] = new
                changed = True
    return dom


def back_edges(body):
    dom = dominators(body)
    out = []
    for n in dom:
        for s in succs(body, n):
            if s in dom.get(n, ()):  # s dominates n
                out.append((n, s))
    return out


def loops(body):
    """Natural loops: list of (header, set(blocks))."""
    pr = preds(body)
    res = []
    for (n, h) in back_edges(body):
        loop = {h, n}
        work = [n]
        while work:
            x = work.pop()
            if x == h:
                continue
            for p in pr.get(x, ()):
                if p not in loop:
                    loop.add(p)
                    work.append(p)
        res.append((h, loop))
    return res


def paths(body, start=0, limit=20000, stop=None):
    """Enumerate acyclic-ish paths (each back edge taken at most once) from `start` to a return
    (or to a block satisfying `stop`).  Yields lists of (bb, chosen-successor-index-or-None)."""
    out = []
    n = [0]

    def rec(b, path, seen_edges):
        n[0] += 1
        if n[0] > limit:
            raise RuntimeError("path budget exceeded in %s" % body.get("uname", body["path"]))
        t = body["blocks"][b]["term"]
        if t["k"] == "ret" or (stop is not None and stop(b)):
            out.append(path + [(b, None)])
            return
        ss = succs(body, b)
        if not ss:
            return  # diverges (panic / unreachable)
        for idx, s in enumerate(ss):
            e = (b, s)
            if e in seen_edges:
                # second traversal of an edge = we went once round a loop: the path ends here
                out.append(path + [(b, idx), (s, "loop")])
                continue
            rec(s, path + [(b, idx)], seen_edges | {e})

    rec(start, [], frozenset())
    return out


def direct_place(body, operand, depth=0):
    """Follow a local operand back through plain moves/copies/refs (no calls) to the place it denotes."""
    pl = operand_place(operand)
    while pl is not None and not [e for e in pl["p"] if e != "*"] and depth < 10:
        depth += 1
        src = None
        n = 0
        for _, bl, s in assigns(body):
            if s["place"]["l"] == pl["l"] and not s["place"]["p"]:
                n += 1
                rv = s["rv"]
                if rv["k"] == "use":
                    src = operand_place(rv["op"])
                elif rv["k"] in ("ref", "rawptr", "copyderef"):
                    src = rv["place"]
                else:
                    src = None
        if n != 1 or src is None:
            return pl
        pl = src
    return pl


def switch_choice(body, b, idx):
    """For a path step (block b, successor index idx) on a switch: the matched value or 'otherwise'."""
    t = body["blocks"][b]["term"]
    if t["k"] != "switch":
        return None
    if idx < len(t["targets"]):
        return t["targets"][idx][0]
    return "otherwise"


# ------------------------------------------------------------------ provenance

_W = {"u8": 8, "i8": 8, "u16": 16, "i16": 16, "u32": 32, "i32": 32, "char": 32, "u64": 64, "i64": 64, "usize": 64, "isize": 64, "u128": 128, "i128": 128, "bool": 1}


def _narrowing(src, dst):
    a, b = _W.get((src or "").strip()), _W.get((dst or "").strip())
    return a is not None and b is not None and b < a


class Prov:
    """Flow-insensitive provenance of locals within one body.

    root descriptors:  ('arg', i, fields...)   a parameter (or a field path below it)
                       ('call', callee-name, line, (arg roots...))
                       ('const', text)
                       ('agg', kind)
                       ('local', l)            a local with no definition we can see (e.g. written through a ref)
    """

    def __init__(self, body):
        self.body = body
        self.defs = {}
        for _, bl, s in assigns(body, cleanup=False):
            pl = s["place"]
            if not pl["p"]:
                self.defs.setdefault(pl["l"], []).append(("rv", s["rv"], s.get("line")))
        for _, bl, t, f in calls(body):
            d = t["dest"]
            if not d["p"]:
                self.defs.setdefault(d["l"], []).append(("call", t, bl["line"]))

    def of_operand(self, o, depth=0):
        if "c" in o or "m" in o:
            return self.of_place(operand_place(o), depth)
        k = o["k"]
        if "fn" in k:
            return {("fn", k["fn"]["path"])}
        return {("const", k.get("val", "?"))}

    def fields_of(self, place, depth=0):
        """Field names plus index projections ([<provenance of the index local>])."""
        out = []
        for e in place["p"]:
            if isinstance(e, dict):
                if "f" in e:
                    out.append(e["n"] if e.get("n") is not None else str(e["f"]))
                elif "i" in e and depth < 6:
                    out.append("[%s]" % fmt_roots(self.of_local(e["i"], depth + 1)))
                elif "ci" in e:
                    out.append("[%s]" % e["ci"])
        return out

    def of_place(self, place, depth=0):
        fields = tuple(self.fields_of(place, depth))
        base = self.of_local(place["l"], depth)
        if not fields:
            return base
        out = set()
        for r in base:
            if r[0] == "arg":
                out.add(r + fields)
            elif r[0] == "aggf":
                # aggregate with known field operands
                d = dict(r[2])
                if fields[0] in d:
                    sub = d[fields[0]]
                    if len(fields) == 1:
                        out |= set(sub)
                    else:
                        for s in sub:
                            out.add(("field", s) + fields[1:])
                else:
                    out.add(("field", ("agg", r[1])) + fields)
            else:
                out.add(("field", r) + fields)
        return out

    def of_local(self, l, depth=0):
        body = self.body
        if 1 <= l <= body["arg_count"]:
            return {("arg", l)}
        if depth > getattr(self, "max_depth", 12):
            return {("local", l)}
        ds = self.defs.get(l)
        if not ds:
            return {("local", l)}
        out = set()
        for d in ds:
            if d[0] == "rv":
                out |= self.of_rvalue(d[1], depth + 1, d[2])
            else:
                t = d[1]
                f = callee_of(t)
                nm = f["name"] if f else "<indirect>"
                # transparent adaptors
                if f is not None and self.transparent(f):
                    out |= self.of_operand(t["args"][0]["op"], depth + 1)
                else:
                    args = tuple(frozenset(self.of_operand(a["op"], depth + 1)) for a in t["args"])
                    out.add(("call", nm, f.get("trait") if f else None, args))
        return out

    @staticmethod
    def transparent(f):
        nm, tr = f["name"], f.get("trait") or ""
        if nm == "clone" and tr == "std::clone::Clone":
            return True
        if nm in ("borrow", "borrow_mut", "deref", "deref_mut", "as_ref", "as_mut", "into", "from", "to_owned"):
            return True
        if nm in ("inner", "cursor") and (f.get("self_ty", "").startswith("input::Cursor")
                                          or f.get("self_ty", "").startswith("input::Checkpoint")):
            return True
        return False

    def of_rvalue(self, r, depth, line=None):
        k = r["k"]
        if k == "use":
            return self.of_operand(r["op"], depth)
        if k in ("ref", "rawptr", "copyderef"):
            return self.of_place(r["place"], depth)
        if k == "cast":
            inner = self.of_operand(r["op"], depth)
            if r.get("ck") == "IntToInt" and _narrowing(r.get("from_ty"), r.get("ty")):
                # a narrowing integer cast loses information: it is part of the value's provenance
                return {("call", "narrow<%s>" % r.get("ty"), None, (frozenset(inner),))}
            return inner
        if k == "bin":
            a = frozenset(self.of_operand(r["a"], depth))
            b = frozenset(self.of_operand(r["b"], depth))
            return {("bin", r["op"], a, b)}
        if k == "un":
            return {("un", r["op"], frozenset(self.of_operand(r["a"], depth)))}
        if k == "agg":
            if r["ak"] == "adt":
                names = r.get("fields") or []
                fs = tuple((n, frozenset(self.of_operand(o, depth))) for n, o in zip(names, r["ops"]))
                return {("aggf", r["adt"] + "::" + r["variant"], fs)}
            if r["ak"] == "tuple":
                fs = tuple((str(i), frozenset(self.of_operand(o, depth))) for i, o in enumerate(r["ops"]))
                return {("aggf", "tuple", fs)}
            return {("agg", r["ak"])}
        if k == "discr":
            return {("discr", frozenset(self.of_place(r["place"], depth)))}
        return {("rv", k)}


def fmt_root(r):
    if not isinstance(r, tuple):
        return str(r)
    if r[0] == "arg":
        return "arg%d%s" % (r[1], "".join("." + x for x in r[2:]))
    if r[0] == "field":
        return fmt_root(r[1]) + "".join("." + x for x in r[2:])
    if r[0] == "call":
        return "%s(%s)" % (r[1], ", ".join("|".join(sorted(fmt_root(x) for x in a)) for a in r[3]))
    if r[0] == "const":
        return "const %s" % r[1]
    if r[0] == "aggf":
        return "%s{%s}" % (r[1].split("::")[-2] if "::" in r[1] else r[1],
                           ", ".join("%s: %s" % (n, "|".join(sorted(fmt_root(x) for x in v))) for n, v in r[2]))
    if r[0] == "bin":
        return "%s(%s, %s)" % (r[1], "|".join(sorted(fmt_root(x) for x in r[2])), "|".join(sorted(fmt_root(x) for x in r[3])))
    if r[0] == "un":
        return "%s(%s)" % (r[1], "|".join(sorted(fmt_root(x) for x in r[2])))
    if r[0] == "local":
        return "?"
    if r[0] == "agg":
        return str(r[1])
    if r[0] == "discr":
        return "discr(%s)" % "|".join(sorted(fmt_root(x) for x in r[1]))
    if r[0] == "fn":
        return "fn:" + str(r[1]).split("::")[-1]
    return str(r)


def fmt_roots(rs):
    return "|".join(sorted(fmt_root(r) for r in rs))


def roots_mention(rs, pred):
    """Does any root (recursively, through argument sets) satisfy pred(root)?"""
    def walk(r):
        if isinstance(r, (frozenset, set, list)):
            return any(walk(y) for y in r)
        if isinstance(r, tuple):
            try:
                if pred(r):
                    return True
            except Exception:
                pass
            return any(walk(x) for x in r if isinstance(x, (tuple, frozenset, set, list)))
        return False
    return any(walk(r) for r in rs)


# ------------------------------------------------------------------ call graph

class CallGraph:
    def __init__(self, facts):
        self.facts = facts
        self.by_path = {}
        for b in facts.bodies:
            self.by_path.setdefault(b["path"], []).append(b)
        self.edges = {}
        for b in facts.bodies:
            es = set()
            for _, _, t, f in calls(b, cleanup=False):
                if f is None:
                    continue
                es.add(callee_path(f))
            # closures defined inside are considered reachable from their parent
            for c in facts.children.get(b["key"], []):
                if c["kind"] == "Closure":
                    es.add(c["path"])
            self.edges[b["key"]] = es

    def bodies_of(self, path):
        return self.by_path.get(path, [])

    def reach(self, body, max_depth=50):
        """All local bodies transitively reachable from `body` (keys)."""
        seen = {}
        work = [(body, 0)]
        while work:
            b, d = work.pop()
            if b["key"] in seen:
                continue
            seen[b["key"]] = b
            if d >= max_depth:
                continue
            for p in self.edges.get(b["key"], ()):
                for c in self.bodies_of(p):
                    if c["key"] not in seen:
                        work.append((c, d + 1))
        return seen


def closure_bodies(facts, body, recursive=True):
    out = []
    work = [body]
    while work:
        b = work.pop()
        for c in facts.children.get(b["key"], []):
            if c["kind"] == "Closure":
                out.append(c)
                if recursive:
                    work.append(c)
    return out


def describe_call(t, f):
    return pp.term(t)


class PathProv(Prov):
    """Provenance restricted to the statements/calls of one CFG path (no merging across match arms)."""

    def __init__(self, body, path):
        self.body = body
        self.defs = {}
        blocks_on_path = [bb for bb, _ in path]
        for bb in blocks_on_path:
            bl = body["blocks"][bb]
            for s in bl["stmts"]:
                if s["k"] == "assign" and not s["place"]["p"]:
                    self.defs.setdefault(s["place"]["l"], [])
                    self.defs[s["place"]["l"]] = [("rv", s["rv"], s.get("line"))]   # last write on the path wins
            t = bl["term"]
            if t["k"] == "call" and not t["dest"]["p"]:
                self.defs[t["dest"]["l"]] = [("call", t, bl["line"])]


# ------------------------------------------------------------------ MIR-level inlining of private helpers

def _shift_place(pl, off):
    if pl is None:
        return pl
    p2 = []
    for e in pl["p"]:
        if isinstance(e, dict) and "i" in e:
            e = dict(e, i=e["i"] + off)
        p2.append(e)
    return {"l": pl["l"] + off, "p": p2}


def _shift_operand(o, off):
    if not isinstance(o, dict):
        return o
    if "c" in o:
        return dict(o, c=_shift_place(o["c"], off))
    if "m" in o:
        return dict(o, m=_shift_place(o["m"], off))
    return o


def _shift_rv(rv, off):
    rv = dict(rv)
    for k in ("op", "a", "b"):
        if k in rv and isinstance(rv[k], dict):
            rv[k] = _shift_operand(rv[k], off)
    if "ops" in rv:
        rv["ops"] = [_shift_operand(o, off) for o in rv["ops"]]
    if "place" in rv and isinstance(rv["place"], dict):
        rv["place"] = _shift_place(rv["place"], off)
    return rv


def _shift_term(t, loff, boff, ret_to):
    t = dict(t)
    k = t["k"]
    if k == "ret":
        return {"k": "goto", "t": ret_to}
    for key in ("t", "otherwise", "unwind"):
        if key in t and isinstance(t[key], int):
            t[key] = t[key] + boff
    if k == "switch":
        t["op"] = _shift_operand(t["op"], loff)
        t["targets"] = [[v, tg + boff] for v, tg in t["targets"]]
    if k == "call":
        t["args"] = [dict(a, op=_shift_operand(a["op"], loff)) for a in t["args"]]
        t["dest"] = _shift_place(t["dest"], loff)
        if isinstance(t.get("func"), dict) and ("c" in t["func"] or "m" in t["func"]):
            t["func"] = _shift_operand(t["func"], loff)
    if k == "drop" and "place" in t:
        t["place"] = _shift_place(t["place"], loff)
    if k == "assert" and "op" in t and isinstance(t["op"], dict):
        t["op"] = _shift_operand(t["op"], loff)
    return t


def inline_private_helpers(facts, body, resolve, max_depth=3, max_blocks=60):
    """A copy of `body` in which every call to a small private crate-local function (as decided by `resolve(callee) -> body or None`)
    is replaced by the callee's blocks: arguments are assigned to the callee's (renumbered) parameter locals, its `return`s jump to the
    continuation, its return slot is copied to the call's destination.  What a Prov / path rule sees is then the same whether a piece of
    the function was extracted into a helper or written inline.  Recursion and large callees are left as calls."""
    import copy
    out = copy.copy(dict(body))
    out["blocks"] = [dict(bl, stmts=list(bl["stmts"]), term=dict(bl["term"])) for bl in body["blocks"]]
    out["locals"] = list(body["locals"])
    done = 0
    stack_keys = {body["key"]}
    work = [(i, 0) for i in range(len(out["blocks"]))]
    while work:
        bi, depth = work.pop()
        bl = out["blocks"][bi]
        t = bl["term"]
        if t["k"] != "call" or depth >= max_depth:
            continue
        f = callee_of(t)
        cb = resolve(f) if f is not None else None
        if cb is None or cb["key"] in stack_keys or len(cb["blocks"]) > max_blocks or cb["kind"] == "Closure":
            continue
        if len(t["args"]) != cb["arg_count"] or t.get("t") is None:
            continue
        loff = len(out["locals"])
        boff = len(out["blocks"])
        out["locals"].extend(cb["locals"])
        cont = t["t"]
        # exit block: dest = move ret-local ; goto continuation
        exit_idx = boff + len(cb["blocks"])
        new_blocks = []
        for cbl in cb["blocks"]:
            stmts = []
            for s in cbl["stmts"]:
                if s["k"] == "assign":
                    stmts.append(dict(s, place=_shift_place(s["place"], loff), rv=_shift_rv(s["rv"], loff)))
                else:
                    stmts.append(s)
            new_blocks.append(dict(cbl, stmts=stmts, term=_shift_term(cbl["term"], loff, boff, exit_idx)))
        exit_block = {"stmts": [{"k": "assign", "place": t["dest"], "rv": {"k": "use", "op": {"m": {"l": loff, "p": []}}}, "line": bl.get("line")}],
                      "term": {"k": "goto", "t": cont}, "line": bl.get("line"), "cleanup": False}
        # entry: assign the arguments, then jump into the callee
        for ai, a in enumerate(t["args"]):
            bl["stmts"].append({"k": "assign", "place": {"l": loff + 1 + ai, "p": []}, "rv": {"k": "use", "op": a["op"]}, "line": bl.get("line")})
        bl["term"] = {"k": "goto", "t": boff}
        out["blocks"].extend(new_blocks)
        out["blocks"].append(exit_block)
        done += 1
        for k in range(boff, boff + len(new_blocks)):
            work.append((k, depth + 1))
    out["inlined_calls"] = done
    return out


def short_key(key):
    """A body key with the module qualifiers of every path in it dropped (`std::mem::MaybeUninit[private::MaybeUninitExt]::uninit_array`
    -> `MaybeUninit[MaybeUninitExt]::uninit_array`): where a private item lives is not part of what it does."""
    import re as _re
    return _re.sub(r"(?<![A-Za-z0-9_])(?:[a-z_][a-z0-9_]*::)+", "", key)        # module segments are snake_case; type names stay

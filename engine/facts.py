"""Fact extraction (runs the rustc_private driver under cargo) + cache + loader/indexes.

The facts are re-extracted whenever /repo's sources (src/**, Cargo.toml, Cargo.lock) or the
driver binary change: the cache key is a content hash, so a check always sees the current
working tree.  Each extraction uses a fresh target dir (mktemp) which is removed afterwards,
so cargo's freshness cache can never replay a stale run without invoking the driver.
"""
import fcntl
import re
import hashlib
import json
import os
import shutil
import subprocess
import sys
import tempfile
import time

VERIF = os.path.dirname(os.path.dirname(os.path.abspath(__file__)))
REPO = os.environ.get("VERIF_REPO", "/repo")
DRIVER = os.path.join(VERIF, "driver", "target", "release", "chumsky-facts-driver")
FACTS_DIR = os.path.join(VERIF, "facts")

ALL_STABLE = "memoization extension sync pratt unstable either regex serde bytes lexical-numbers"

CONFIGS = {
    # name: (toolchain, cargo feature args)
    "all": ("nightly", ["--features", ALL_STABLE]),
    "default": ("nightly", []),
    "nodefault": ("nightly", ["--no-default-features"]),
    "nightly": ("nightly", ["--features", ALL_STABLE + " nightly"]),
}

EXPECT_FEATURES = {
    "all": {"bytes", "default", "either", "extension", "lexical", "lexical-numbers", "memoization",
            "pratt", "regex", "serde", "spin", "stacker", "std", "sync", "unstable"},
    "default": {"default", "stacker", "std"},
    "nodefault": set(),
    "nightly": {"bytes", "default", "either", "extension", "lexical", "lexical-numbers", "memoization",
                "pratt", "regex", "serde", "spin", "stacker", "std", "sync", "unstable", "nightly"},
}


class FactsError(Exception):
    """Checker breakage (not a property violation): fail closed."""


def _sysroot():
    return subprocess.check_output(["rustc", "+nightly", "--print", "sysroot"], text=True).strip()


def repo_hash(repo=None):
    repo = repo or REPO
    h = hashlib.sha256()
    files = []
    for root, dirs, fs in os.walk(os.path.join(repo, "src")):
        dirs.sort()
        for f in sorted(fs):
            files.append(os.path.join(root, f))
    for f in ("Cargo.toml", "Cargo.lock", "README.md"):
        p = os.path.join(repo, f)
        if os.path.exists(p):
            files.append(p)
    for p in files:
        h.update(os.path.relpath(p, repo).encode())
        h.update(b"\0")
        with open(p, "rb") as fh:
            h.update(fh.read())
        h.update(b"\0")
    with open(DRIVER, "rb") as fh:
        h.update(hashlib.sha256(fh.read()).digest())
    return h.hexdigest()[:24]


def ensure_driver():
    if not os.path.exists(DRIVER):
        subprocess.check_call(["cargo", "build", "--release", "--offline"],
                              cwd=os.path.join(VERIF, "driver"),
                              env=dict(os.environ, CARGO_NET_OFFLINE="true"))
    if not os.path.exists(DRIVER):
        raise FactsError("driver binary missing: run MANIFEST.setup_cmd")


def extract(config="all", repo=None, quiet=True):
    """Return path of the fact file for `config` of the current /repo tree (cached by hash)."""
    repo = repo or REPO
    ensure_driver()
    os.makedirs(FACTS_DIR, exist_ok=True)
    key = repo_hash(repo)
    out = os.path.join(FACTS_DIR, "facts-%s-%s.json" % (config, key))
    if os.path.exists(out):
        return out
    lock = open(os.path.join(FACTS_DIR, ".lock-%s" % config), "w")
    fcntl.flock(lock, fcntl.LOCK_EX)
    try:
        if os.path.exists(out):
            return out
        toolchain, feat = CONFIGS[config]
        tdir = tempfile.mkdtemp(prefix="verif-facts-")
        try:
            env = dict(os.environ)
            env.update({
                "LD_LIBRARY_PATH": os.path.join(_sysroot(), "lib"),
                "RUSTFLAGS": "-Zmir-opt-level=0 -Awarnings",
                "RUSTC_WORKSPACE_WRAPPER": DRIVER,
                "VERIF_FACTS_OUT": out + ".part",
                "CARGO_TARGET_DIR": tdir,
                "CARGO_NET_OFFLINE": "true",
            })
            env.pop("RUSTC_WRAPPER", None)
            cmd = ["cargo", "+" + toolchain, "check", "--offline", "--lib", "--quiet"] + feat
            t0 = time.time()
            p = subprocess.run(cmd, cwd=repo, env=env, stdout=subprocess.PIPE, stderr=subprocess.STDOUT, text=True)
            if p.returncode != 0:
                raise FactsError("cargo check failed for config %s (the tree does not compile?):\n%s"
                                 % (config, p.stdout[-4000:]))
            if not os.path.exists(out + ".part"):
                raise FactsError("driver did not write facts for config %s (wrapper skipped?)\n%s" % (config, p.stdout[-2000:]))
            os.rename(out + ".part", out)
            if not quiet:
                print("facts[%s]: extracted in %.1fs -> %s" % (config, time.time() - t0, out), file=sys.stderr)
        finally:
            shutil.rmtree(tdir, ignore_errors=True)
        # prune old fact files for this config (keep disk usage bounded)
        olds = sorted((f for f in os.listdir(FACTS_DIR) if f.startswith("facts-%s-" % config) and f.endswith(".json")),
                      key=lambda f: os.path.getmtime(os.path.join(FACTS_DIR, f)))
        for f in olds[:-6]:
            try:
                os.remove(os.path.join(FACTS_DIR, f))
            except OSError:
                pass
        return out
    finally:
        fcntl.flock(lock, fcntl.LOCK_UN)
        lock.close()


TOUCHED = {}          # body key -> set of rule names that read its blocks (only filled under VERIF_COVERAGE)
CURRENT_RULE = ["?"]


class TrackedBody(dict):
    def __getitem__(self, k):
        if k == "blocks":
            TOUCHED.setdefault(dict.__getitem__(self, "key"), set()).add(CURRENT_RULE[0])
        return dict.__getitem__(self, k)

    def get(self, k, d=None):
        if k == "blocks":
            TOUCHED.setdefault(dict.__getitem__(self, "key"), set()).add(CURRENT_RULE[0])
        return dict.get(self, k, d)


class Facts:
    def __init__(self, path, config):
        with open(path) as fh:
            raw = fh.read()
        # no_std configurations print std items under core:: / alloc:: -- one spelling for the model tables
        raw = re.sub(r'(?<![A-Za-z0-9_])(core|alloc)::', 'std::', raw)
        d = json.loads(raw)
        self.path = path
        self.config = config
        self.raw = d
        if d.get("crate") != "chumsky":
            raise FactsError("unexpected crate %r" % d.get("crate"))
        feats = set(d["features"])
        if feats != EXPECT_FEATURES[config]:
            raise FactsError("unexpected feature set for %s: %s" % (config, sorted(feats)))
        self.features = feats
        self.bodies = d["bodies"]
        if os.environ.get("VERIF_COVERAGE"):
            # tools/coverage_map.py: record which bodies' MIR (blocks) a rule actually reads
            self.bodies = d["bodies"] = [TrackedBody(b) for b in d["bodies"]]
        self.adts = {a["path"]: a for a in d["adts"]}
        self.impls = d["impls"]
        self.statics = d["statics"]
        self.traits = {t["path"]: t for t in d["traits"]}
        self.opaques = d["opaques"]
        self.by_key = {b["key"]: b for b in self.bodies}
        for b in self.bodies:
            b["qname"] = self._qname(b)
        # closures by parent
        self.children = {}
        for b in self.bodies:
            self.children.setdefault(b["parent_key"], []).append(b)
        self.by_qname = {}
        for b in self.bodies:
            self.by_qname.setdefault(b["qname"], []).append(b)
        # unique names: qname, plus the impl self type when several impls share a qname
        for q, bs in self.by_qname.items():
            if len(bs) == 1:
                bs[0]["uname"] = q
            else:
                for b in bs:
                    base = b
                    k = b["key"]
                    while "{closure#" in k.split("::")[-1]:
                        k = "::".join(k.split("::")[:-1])
                    base = self.by_key.get(k, b)
                    b["uname"] = "%s<%s>" % (q, base.get("impl_self", base["key"]))
        # several impls of one trait for one self type (Seq<char> / Seq<&Grapheme> for &str): add the full trait reference
        cnt = {}
        for b in self.bodies:
            cnt[b["uname"]] = cnt.get(b["uname"], 0) + 1
        for b in self.bodies:
            if cnt[b["uname"]] > 1:
                k = b["key"]
                while "{closure#" in k.split("::")[-1]:
                    k = "::".join(k.split("::")[:-1])
                base = self.by_key.get(k, b)
                if base.get("impl_trait_full"):
                    b["uname"] = "%s<%s>" % (b["qname"], base["impl_trait_full"])
        self.by_uname = {b["uname"]: b for b in self.bodies}

    def _qname(self, b):
        """Semantic, line-free name: <ADT>[<Trait>]::<fn>{closure#n}."""
        key = b["key"]
        tail = ""
        # closure suffixes
        base_key = key
        parts = key.split("::")
        clos = []
        while parts and parts[-1].startswith("{closure#"):
            clos.append(parts.pop())
        clos.reverse()
        base_key = "::".join(parts)
        base = self.by_key.get(base_key, b)
        name = base["name"]
        if "impl_self_adt" in base or "impl_self" in base:
            selfs = base.get("impl_self_adt") or base.get("impl_self")
            # distinguish impls of the same ADT by full self type when generic args are concrete-ish
            tr = base.get("impl_trait")
            q = selfs
            if tr:
                q += "[" + tr + "]"
            q += "::" + name
        elif "in_trait" in base:
            q = base["in_trait"] + "::" + name
        else:
            q = base["path"]
        if clos:
            q += "::" + "::".join(clos)
        return q

    def find(self, qname, impl_self_contains=None):
        bs = self.by_qname.get(qname, [])
        if impl_self_contains is not None:
            bs = [b for b in bs if impl_self_contains in (b.get("impl_self") or "")]
        return bs

    def one(self, qname, impl_self_contains=None):
        bs = self.find(qname, impl_self_contains)
        if len(bs) != 1:
            raise FactsError("anchor %s%s: expected exactly one body, found %d"
                             % (qname, " [%s]" % impl_self_contains if impl_self_contains else "", len(bs)))
        return bs[0]


_cache = {}


def load(config="all", repo=None):
    k = (config, repo or REPO)
    if k not in _cache:
        _cache[k] = Facts(extract(config, repo), config)
    return _cache[k]


if __name__ == "__main__":
    cfg = sys.argv[1] if len(sys.argv) > 1 else "all"
    f = load(cfg)
    print(cfg, len(f.bodies), "bodies", len(f.adts), "adts", len(f.impls), "impls")

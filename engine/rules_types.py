"""Type-level / sibling / extraction rules: CLONE-FIELDS, ONCE, MEMO-KEY, AFFINE."""
import re

import mirq
from mirq import calls, assigns, callee_of, callee_path, Prov, fmt_roots, fmt_root
from report import RuleResult, V

PARSER_TRAITS = {"Parser", "IterParser", "ConfigParser", "ConfigIterParser", "recovery::Strategy", "pratt::Operator"}


def loc(b, line=None):
    return b["file"], (line if line is not None else b["line"])


# ====================================================================== CLONE-FIELDS

def _chain_markers(b, operand, depth=0):
    """Downcast markers ('as Variant') and field names met when following `operand` back through plain
    moves / refs / clone() calls to a parameter."""
    marks = []
    pl = mirq.operand_place(operand)
    seen = 0
    while pl is not None and seen < 12:
        seen += 1
        marks += [x for x in mirq.place_fields(pl) if x != "*"]
        if 1 <= pl["l"] <= b["arg_count"]:
            return marks, pl["l"]
        src = None
        n = 0
        for _, bl, s in assigns(b):
            if s["place"]["l"] == pl["l"] and not s["place"]["p"]:
                n += 1
                rv = s["rv"]
                if rv["k"] in ("use", "cast"):
                    src = mirq.operand_place(rv["op"])
                elif rv["k"] in ("ref", "copyderef"):
                    src = rv["place"]
        for _, bl, t, f in calls(b):
            if t["dest"]["l"] == pl["l"] and not t["dest"]["p"]:
                n += 1
                if f is not None and f["name"] in ("clone", "deref", "borrow", "as_ref") and t["args"]:
                    src = mirq.operand_place(t["args"][0]["op"])
        if n != 1 or src is None:
            return marks, None
        pl = src
    return marks, None


def rule_clone_fields(facts):
    """Every hand-written Clone impl of a parser type copies each field from the same field of self
    (and each enum variant from the same variant): a clone is indistinguishable from the original."""
    r = RuleResult("CLONE-FIELDS")
    parser_adts = {im["self_adt"] for im in facts.impls if im.get("trait") in PARSER_TRAITS and "self_adt" in im}
    parser_adts |= {"recursive::Recursive", "recursive::RecursiveInner", "Boxed", "pratt::Boxed", "cache::Cache"}
    n = 0
    for b in facts.bodies:
        if b.get("impl_trait") != "std::clone::Clone" or b["name"] != "clone" or b["kind"] == "Closure":
            continue
        adt = b.get("impl_self_adt")
        if adt not in parser_adts or b.get("from_expansion"):
            continue
        n += 1
        pv = Prov(b)
        aggs = [s for _, _, s in assigns(b) if s["rv"]["k"] == "agg" and s["rv"].get("ak") == "adt"]
        own = [s for s in aggs if s["rv"]["adt"] == adt or (adt == "recursive::Recursive" and s["rv"]["adt"] == "recursive::RecursiveInner")]
        if not own:
            # `*self` (Copy types) is trivially faithful
            ret = pv.of_local(0)
            ok = ret == {("arg", 1)}
            r.ob(ok)
            if not ok:
                r.violations.append(V("CLONE-FIELDS", b["uname"], "no Self aggregate", "clone() neither copies *self nor builds Self field by field (%s)" % fmt_roots(ret), *loc(b)))
            continue
        for s in own:
            rv = s["rv"]
            a = facts.adts.get(rv["adt"])
            is_enum = a is not None and a["kind"] == "enum"
            for fld, op in zip(rv.get("fields") or [], rv["ops"]):
                if "c" not in op and "m" not in op:
                    r.ob(True)      # constant (PhantomData / EmptyPhantom)
                    continue
                marks, arg = _chain_markers(b, op)
                roots = pv.of_operand(op)
                if all(x[0] in ("aggf", "const", "call") and not mirq.roots_mention({x}, lambda y: isinstance(y, tuple) and y[:1] == ("arg",)) for x in roots):
                    r.ob(True)      # built from nothing of self (phantom constructors)
                    continue
                if is_enum:
                    want = "as " + rv["variant"]
                    ok = arg == 1 and want in marks and not any(m.startswith("as ") and m != want for m in marks)
                    why = "variant %s built from %s" % (rv["variant"], [m for m in marks if m.startswith("as ")] or "?")
                else:
                    names = [m for m in marks if not m.startswith("as ") and m not in ("[]", "?")]
                    # nested aggregate (e.g. Recursive { inner: <RecursiveInner aggregate> })
                    nested = any(x[0] == "aggf" for x in roots)
                    ok = nested or (arg == 1 and names[:1] == [fld])
                    why = "field `%s` copied from self.%s" % (fld, ".".join(names) or "?")
                r.ob(ok)
                if not ok:
                    r.violations.append(V("CLONE-FIELDS", b["uname"], "field %s" % fld,
                                          "Clone for %s: %s — a clone would not behave like the value it was cloned from" % (adt, why),
                                          b["file"], s.get("line")))
    r.explanation = ("each of the %d hand-written Clone impls of parser / strategy / operator types builds Self field by field from the "
                     "same-named field of self (enum variants from the same variant; phantom fields from constants)" % n)
    r.nontrivial = n
    r.samples = [{"impls": n}]
    r.require_floor(n, facts, "CLONE-FIELDS.impls", "hand-written Clone impls of parser types")
    return r


# ====================================================================== ONCE (declare/define cell, recursive())

def _diverges_from(b, start_blocks):
    """No return reachable from the given blocks."""
    rets = set(mirq.return_blocks(b))
    for s in start_blocks:
        if mirq.reachable(b, s) & rets:
            return False
    return True


def rule_once(facts):
    r = RuleResult("ONCE")
    # (1) OnceCell::set writes only while vacant
    b = facts.one("recursive::OnceCell::set")
    writes = [i for i, bl, t, f in calls(b) if f is not None and f["name"] in ("write", "replace", "set", "swap")]
    isn = [(i, t) for i, bl, t, f in calls(b) if f is not None and f["name"] in ("is_none", "is_some")]
    ok = len(writes) == 1 and len(isn) == 1
    why = "writes=%d vacancy tests=%d" % (len(writes), len(isn))
    if ok:
        dl = isn[0][1]["dest"]["l"]
        alias = {dl}
        for _ in range(3):
            for _, _, s_ in assigns(b):
                if s_["rv"]["k"] == "use" and not s_["place"]["p"]:
                    p_ = mirq.operand_place(s_["rv"]["op"])
                    if p_ is not None and p_["l"] in alias and not p_["p"]:
                        alias.add(s_["place"]["l"])
        sw = [(i, bl["term"]) for i, bl in mirq.blocks(b) if bl["term"]["k"] == "switch" and (mirq.operand_place(bl["term"]["op"]) or {}).get("l") in alias]
        ok = len(sw) == 1
        if ok:
            i, t = sw[0]
            vac_true = t["otherwise"] if isn[0][1] and callee_of(isn[0][1])["name"] == "is_none" else t["targets"][0][1]
            other = [x for x in mirq.succs(b, i) if x != vac_true]
            # the write is reachable only through the vacant branch
            ok = writes[0] not in mirq.reachable(b, 0, avoid={vac_true}) and writes[0] in mirq.reachable(b, vac_true)
            # the occupied branch returns Err
            pv = Prov(b)
            errs = [s for _, _, s in assigns(b) if s["place"]["l"] == 0 and s["rv"]["k"] == "agg" and s["rv"].get("variant") == "Err"]
            ok = ok and bool(errs) and all(writes[0] not in mirq.reachable(b, o) for o in other)
            why = "write guarded by vacancy=%s" % ok
    r.ob(ok)
    if not ok:
        r.violations.append(V("ONCE", b["qname"], "cell written while occupied",
                              "OnceCell::set must write only when the cell is vacant and return Err otherwise (%s): a second define() "
                              "would silently replace the parser" % why, *loc(b)))
    # (2) only define() calls set; (3) define turns Err into a panic on every path
    callers = sorted({x["qname"] for x in facts.bodies for _, _, _, f in calls(x) if f is not None and callee_path(f).startswith("recursive::OnceCell") and f["name"] == "set"})
    ok = callers == ["recursive::Recursive::define"]
    r.ob(ok)
    if not ok:
        r.violations.append(V("ONCE", "recursive::OnceCell::set", "callers", "OnceCell::set must be called only by Recursive::define; callers: %s" % callers))
    d = facts.one("recursive::Recursive::define")
    sets = [(i, t) for i, bl, t, f in calls(d) if f is not None and f["name"] == "set" and callee_path(f).startswith("recursive::OnceCell")]
    ok = len(sets) == 1
    why = "%d set() calls" % len(sets)
    if ok:
        res_local = sets[0][1]["dest"]["l"]
        # the result must flow into something that diverges on Err
        users = []
        for i, bl, t, f in calls(d):
            for a in t["args"]:
                pl = mirq.operand_place(a["op"])
                if pl is not None and pl["l"] == res_local:
                    users.append((i, t, f))
        good = False
        for i, t, f in users:
            nm = f["name"] if f else ""
            if nm in ("unwrap", "expect"):
                good = True
            if nm in ("unwrap_or_else", "map_err", "or_else"):
                # closure argument must diverge
                for cb in mirq.closure_bodies(facts, d, recursive=False):
                    if not (set(mirq.return_blocks(cb)) & mirq.reachable(cb, 0)):
                        good = True
        # or an explicit match on the discriminant whose Err arm diverges
        for _, bl, s in assigns(d):
            if s["rv"]["k"] == "discr" and s["rv"]["place"]["l"] == res_local:
                dl = s["place"]["l"]
                for i, bl2 in mirq.blocks(d):
                    t = bl2["term"]
                    if t["k"] == "switch" and (mirq.operand_place(t["op"]) or {}).get("l") == dl:
                        err_t = [tb for v, tb in t["targets"] if v == 1] or [t["otherwise"]]
                        if _diverges_from(d, err_t):
                            good = True
        ok = good
        why = "result of set() consumed by %s" % [f["name"] if f else "?" for _, _, f in users]
    r.ob(ok)
    r.samples.append({"define": why})
    if not ok:
        r.violations.append(V("ONCE", d["qname"], "second definition not refused",
                              "Recursive::define must turn the Err of OnceCell::set into a panic on every path (unwrap/expect/"
                              "unwrap_or_else(|_| panic!)), in every build profile; found: %s" % why, *loc(d)))
    # track_caller location is passed into the panic message: the closure captures `location`
    # (4) recursive(): user closure gets the weak handle, caller gets the strong one; declare(): strong
    for q, want_ret in (("recursive::recursive", "Owned"), ("recursive::Recursive::declare", "Owned")):
        for b2 in facts.find(q):
            pv = Prov(b2)
            ret = pv.of_local(0)
            kinds = set()

            def coll(x):
                if isinstance(x, tuple) and x[:1] == ("aggf",) and "RecursiveInner::" in x[1]:
                    kinds.add(x[1].split("::")[-1])
                return False
            mirq.roots_mention(ret, coll)
            ok = kinds == {want_ret}
            r.ob(ok)
            if not ok:
                r.violations.append(V("ONCE", q, "handle kind", "%s must return the owning (strong) handle; returns %s" % (q, sorted(kinds)), *loc(b2)))
    for cb in facts.bodies:
        if cb["qname"].startswith("recursive::recursive::{closure#0}") and cb["qname"].count("closure") == 1:
            inner = [s["rv"]["variant"] for _, _, s in assigns(cb) if s["rv"]["k"] == "agg" and s["rv"].get("adt") == "recursive::RecursiveInner"]
            ok = inner == ["Unowned"]
            r.ob(ok)
            if not ok:
                r.violations.append(V("ONCE", cb["qname"], "self-reference must be weak",
                                      "the handle given to the user's closure inside Rc::new_cyclic must be RecursiveInner::Unowned (weak), found %s" % inner, *loc(cb)))
    r.explanation = ("declare/define cell: OnceCell::set writes only under the vacancy test and returns Err otherwise; its only caller is "
                     "Recursive::define, which turns Err into a panic on every path; recursive() hands the user closure a weak handle and "
                     "returns the owning one; declare() returns an owning handle")
    r.nontrivial = r.obligations
    return r


# ====================================================================== MEMO-KEY

def rule_memo_key(facts):
    r = RuleResult("MEMO-KEY")
    bs = facts.find("combinator::Memoized[Parser]::go")
    if len(bs) != 1:
        if "memoization" in facts.features:
            r.errors.append("anchor Memoized::go: %d bodies" % len(bs))
        r.explanation = "memoization feature off"
        return r
    b = bs[0]
    # the key handed to memos.entry / insert / remove
    keyl = None
    for _, bl, t, f in calls(b):
        if f is not None and f["name"] == "entry" and "HashMap" in f["path"]:
            keyl = mirq.operand_place(t["args"][1]["op"])
    if keyl is None:
        # the table may be consulted with get / contains_key + insert instead of the entry API: the key of the first lookup
        for _, bl, t, f in calls(b):
            if f is not None and f["name"] in ("get", "get_mut", "contains_key", "insert", "remove") and "HashMap" in f["path"] and keyl is None:
                dp = mirq.direct_place(b, t["args"][1]["op"])
                keyl = dp if dp is not None and not dp["p"] else mirq.operand_place(t["args"][1]["op"])
    ok = keyl is not None
    why = ""
    if ok:
        # find the tuple aggregate and its second component
        tup = None
        cur = keyl["l"]
        for _ in range(4):
            for _, bl, s in assigns(b):
                if s["place"]["l"] == cur and not s["place"]["p"]:
                    if s["rv"]["k"] == "agg" and s["rv"]["ak"] == "tuple":
                        tup = s["rv"]
                    elif s["rv"]["k"] == "use":
                        p = mirq.operand_place(s["rv"]["op"])
                        if p:
                            cur = p["l"]
        ok = tup is not None and len(tup["ops"]) == 2
        if ok:
            # first component: cursor_location(before)
            pv = Prov(b)
            c0 = pv.of_operand(tup["ops"][0])
            pos_ok = all(x[0] == "call" and x[1] == "cursor_location" for x in c0) and bool(c0)
            r.ob(pos_ok)
            if not pos_ok:
                r.violations.append(V("MEMO-KEY", b["uname"], "position component", "memo key position must be cursor_location(start cursor); found %s" % fmt_roots(c0), *loc(b)))
            # identity component: follow casts back to a raw pointer of a place
            idl = mirq.operand_place(tup["ops"][1])["l"]
            addr_of = None
            for _ in range(6):
                for _, bl, s in assigns(b):
                    if s["place"]["l"] == idl and not s["place"]["p"]:
                        rv = s["rv"]
                        if rv["k"] == "cast" or rv["k"] == "use":
                            p = mirq.operand_place(rv["op"])
                            if p:
                                idl = p["l"]
                        elif rv["k"] in ("rawptr", "ref"):
                            addr_of = rv["place"]
                            p = rv["place"]
                            if all(e == "*" for e in p["p"]):
                                idl = p["l"]
            if addr_of is not None:
                fp = mirq.field_path(addr_of)
                fty = None
                for e in addr_of["p"]:
                    if isinstance(e, dict) and "f" in e:
                        fty = e.get("t")
                bare_param = fty is not None and re.match(r"^[A-Z][A-Za-z0-9_]*$", fty) is not None
                if bare_param:
                    r.ob(False)
                    r.violations.append(V("MEMO-KEY", b["uname"], "addr-of-A",
                                          "the parser-identity component of the memo key is the address of self.%s, whose type `%s` is an "
                                          "unconstrained type parameter: distinct zero-sized memoised parsers can share an address, so "
                                          "their entries collide" % (".".join(fp), fty), *loc(b)))
                else:
                    r.ob(True)
                why = "identity = address of self.%s : %s" % (".".join(fp), fty)
            else:
                idroots = pv.of_operand(tup["ops"][1])
                dep = mirq.roots_mention(idroots, lambda y: isinstance(y, tuple) and y[:2] == ("arg", 1))
                r.ob(dep)
                why = "identity component = %s" % fmt_roots(idroots)[:120]
                if not dep:
                    r.violations.append(V("MEMO-KEY", b["uname"], "identity does not depend on the parser value",
                                          "the parser-identity component of the memo key (%s) is not derived from `self`: distinct memoised "
                                          "parsers of the same type share entries" % fmt_roots(idroots)[:120], *loc(b)))
    if ok and keyl is not None:
        # the result of a parser also depends on the context it runs under (configure / with_ctx / ignore_with_ctx hand a value down):
        # either the key has a component derived from inp.ctx, or Memoized is only a parser for the unit context
        pv = Prov(b)
        kroots = pv.of_local(keyl["l"])
        uses_ctx = mirq.roots_mention(kroots, lambda y: isinstance(y, tuple) and y[0] == "arg" and y[1] == 2 and "ctx" in y[2:])
        unit_ctx = any(re.search(r"Context\s*(==|=)\s*\(\)", str(x)) for x in (b.get("preds") or []))
        r.ob(uses_ctx or unit_ctx)
        if not (uses_ctx or unit_ctx):
            r.violations.append(V("MEMO-KEY", b["uname"], "ctx-not-in-key",
                                  "the memo key (%s) has no component derived from the context (`inp.ctx`) although Memoized is a parser for "
                                  "every E::Context: the same memoised parser tried at one position under two different contexts gets the "
                                  "first context's recorded failure replayed for the second" % fmt_roots(kroots)[:160], *loc(b)))
    if not ok and keyl is not None:
        # the table is keyed by something that is not a (position, identity) pair: a single word mixing both (address + offset,
        # a hash, only one of the two) makes distinct (position, parser) pairs share an entry
        pv = Prov(b)
        kr = fmt_roots(pv.of_local(keyl["l"]))
        r.ob(False)
        r.violations.append(V("MEMO-KEY", b["uname"], "key is not a (position, identity) pair",
                              "the memo table must be keyed by the pair (cursor_location(start), parser identity), compared component-wise; "
                              "the key handed to memos.entry is `%s`: distinct (position, parser) pairs can collide, so one parser's stored "
                              "failure or in-progress marker is replayed for another" % kr[:200], *loc(b)))
        why = "key = %s" % kr[:120]
    elif not ok:
        r.errors.append("could not locate the memo key construction in Memoized::go")
    r.explanation = ("the memo key is (cursor_location(start), identity); the identity component must distinguish distinct memoised parsers "
                     "(%s)" % why)
    r.nontrivial = 2
    r.samples = [{"key": why}]
    return r


# ====================================================================== AFFINE (binding powers)

OVERFLOWS = []


def _int_width(ty):
    m = re.match(r"^[ui](\d+)$", ty.strip())
    if m:
        return int(m.group(1))
    return 64 if ty.strip() in ("usize", "isize") else None


def _affine_of_body(b):
    """Abstractly evaluate `fn(&Associativity) -> u32` per enum arm to (a, c) meaning a*x + c."""
    res = {}
    # find the switch on the discriminant of *self
    pv = Prov(b)
    for path in mirq.paths(b):
        arm = None
        val = {}
        ret = None
        for (bb, idx) in path:
            bl = b["blocks"][bb]
            for s in bl["stmts"]:
                if s["k"] != "assign" or s["place"]["p"] and s["place"]["p"] != []:
                    # allow tuple field writes? overflow pairs are read via .0 below
                    pass
                if s["k"] == "assign" and not s["place"]["p"]:
                    rv = s["rv"]
                    v = None
                    if rv["k"] == "use":
                        v = _aff_operand(rv["op"], val)
                    elif rv["k"] == "cast":
                        v = _aff_operand(rv["op"], val)
                    elif rv["k"] == "bin":
                        a_, b_ = _aff_operand(rv["a"], val), _aff_operand(rv["b"], val)
                        op = rv["op"].replace("WithOverflow", "").replace("Unchecked", "")
                        if a_ is not None and b_ is not None:
                            if op == "Add":
                                v = (a_[0] + b_[0], a_[1] + b_[1])
                            elif op == "Sub":
                                v = (a_[0] - b_[0], a_[1] - b_[1])
                            elif op == "Mul" and (a_[0] == 0 or b_[0] == 0):
                                k, o = (a_, b_) if a_[0] == 0 else (b_, a_)
                                v = (k[1] * o[0], k[1] * o[1])
                            elif op == "Shl" and b_[0] == 0 and 0 <= b_[1] < 32:
                                v = (a_[0] << b_[1], a_[1] << b_[1])
                            elif op == "BitOr" and (a_[0] == 0 or b_[0] == 0):
                                k, o = (a_, b_) if a_[0] == 0 else (b_, a_)
                                n_ = max(1, k[1].bit_length())
                                if k[1] >= 0 and o[0] % (1 << n_) == 0 and o[1] % (1 << n_) == 0:
                                    v = (o[0], o[1] + k[1])        # the low n bits of o are zero: `|` adds
                        if v is not None:
                            # the operation is carried out in the width of its operands: the whole u16 range must fit
                            w = _int_width(mirq.local_ty(b, mirq.operand_place(rv["a"])["l"])) if mirq.operand_place(rv["a"]) else None
                            w = w or _int_width(mirq.local_ty(b, s["place"]["l"]).strip("()").split(",")[0])
                            hi = max(v[1], v[0] * 65535 + v[1])
                            lo = min(v[1], v[0] * 65535 + v[1])
                            if w is not None and (hi >= (1 << w) or lo < 0):
                                OVERFLOWS.append("%s: %s of width u%d evaluates to %d*x+%d, which leaves the type for some u16 binding power x (max %d)"
                                                 % (b["qname"], rv["op"], w, v[0], v[1], hi))
                        if rv["op"].endswith("WithOverflow") and v is not None:
                            v = ("pair", v)
                    elif rv["k"] == "copyderef" or rv["k"] == "ref":
                        v = _aff_place(rv["place"], val)
                    if v is not None:
                        val[s["place"]["l"]] = v
            t = bl["term"]
            if t["k"] == "call" and not t["dest"]["p"] and len(t["args"]) == 1:
                f_ = mirq.callee_of(t)
                if f_ is not None and f_["name"] in ("from", "into") and _int_width(mirq.local_ty(b, t["dest"]["l"])):
                    v_ = _aff_operand(t["args"][0]["op"], val)     # a widening conversion keeps the value
                    src_w = _int_width(t["args"][0]["ty"]) or 0
                    if v_ is not None and v_[0] != "pair" and src_w <= _int_width(mirq.local_ty(b, t["dest"]["l"])):
                        val[t["dest"]["l"]] = v_
            if t["k"] == "switch" and idx not in (None, "loop") and arm is None:
                ch = mirq.switch_choice(b, bb, idx)
                arm = ch
        ret = val.get(0)
        if arm is not None and ret is not None and ret[0] != "pair":
            res.setdefault(arm, set()).add(ret)
    return res


def _aff_operand(o, val):
    if "k" in o:
        m = re.match(r"^(?:const )?(-?\d+)(_[ui]\d+|_usize)?$", o["k"].get("val", "").strip())
        return (0, int(m.group(1))) if m else None
    return _aff_place(mirq.operand_place(o), val)


def _aff_place(pl, val):
    if pl is None:
        return None
    fields = mirq.place_fields(pl)
    v = val.get(pl["l"])
    names = [f for f in fields if f != "*"]
    if v is not None:
        if v[0] == "pair":
            if names == ["0"]:
                return v[1]
            return None
        if not names:
            return v
        return None
    # a read of the payload of *self:  (*_1 as Left).0  -> x
    if pl["l"] == 1 and any(n.startswith("as ") for n in names) and names[-1] == "0":
        return (1, 0)
    return None


def _affine_eval_arm(facts, b, arm, self_val, depth=0):
    """Evaluate `b` (a function of `&Associativity`, possibly through private helpers that return tuples / bools) for ONE enum arm:
    the set of values it can return, each an affine term (a, c) = a*x + c over the binding power x, ('bool', v) or ('tuple', [..]).
    Paths whose discriminant test picks another arm are infeasible.  None if something cannot be evaluated."""
    import nf as _nf
    if depth > 3:
        return None
    N = _NF.get(id(facts)) if id(facts) in _NF else None
    if N is None:
        effects_nf(facts, b)
        N = _NF[id(facts)]
    out = set()
    try:
        ps = mirq.paths(b, limit=4000)
    except RuntimeError:
        return None
    for path in ps:
        if path and path[-1][1] == "loop":
            return None
        val = {1: self_val}
        feasible = True

        def place(pl):
            if pl is None or pl["l"] not in val:
                return None
            v = val[pl["l"]]
            for e in pl["p"]:
                if e == "*":
                    continue
                if isinstance(e, dict) and "dc" in e:
                    continue
                if isinstance(e, dict) and "f" in e:
                    if v == "self":
                        v = (1, 0)                      # payload of the arm: the binding power x
                    elif isinstance(v, tuple) and v and v[0] == "tuple":
                        v = v[1][e["f"]] if e["f"] < len(v[1]) else None
                    elif isinstance(v, tuple) and v and v[0] == "pair":
                        v = v[1] if e["f"] == 0 else None
                    else:
                        return None
                else:
                    return None
                if v is None:
                    return None
            return v

        def operand(o):
            if "k" in o:
                t = o["k"].get("val", "").strip()
                if t in ("true", "false"):
                    return ("bool", t == "true")
                m = re.match(r"^(?:const )?(-?\d+)(_[ui]\d+|_usize)?$", t)
                return (0, int(m.group(1))) if m else None
            return place(mirq.operand_place(o))
        for (bb, idx) in path:
            bl = b["blocks"][bb]
            for st in bl["stmts"]:
                if st["k"] != "assign" or st["place"]["p"]:
                    continue
                rv = st["rv"]
                v = None
                k = rv["k"]
                if k == "use":
                    v = operand(rv["op"])
                elif k in ("ref", "copyderef"):
                    v = place(rv["place"])
                elif k == "cast":
                    v = operand(rv["op"])
                    if isinstance(v, tuple) and v and v[0] == "bool":
                        v = (0, int(v[1]))
                elif k == "discr":
                    pv_ = place(rv["place"])
                    v = ("discr",) if pv_ == "self" else None
                elif k == "un" and rv["op"] == "Not":
                    x = operand(rv["a"])
                    v = ("bool", not x[1]) if isinstance(x, tuple) and x and x[0] == "bool" else None
                elif k == "agg" and rv.get("ak") == "tuple":
                    v = ("tuple", [operand(o) for o in rv["ops"]])
                elif k == "bin":
                    a_, b_ = operand(rv["a"]), operand(rv["b"])
                    op = rv["op"].replace("WithOverflow", "").replace("Unchecked", "")
                    if a_ is not None and b_ is not None and isinstance(a_[0], int) and isinstance(b_[0], int):
                        if op == "Add":
                            v = (a_[0] + b_[0], a_[1] + b_[1])
                        elif op == "Sub":
                            v = (a_[0] - b_[0], a_[1] - b_[1])
                        elif op == "Mul" and (a_[0] == 0 or b_[0] == 0):
                            kk, o_ = (a_, b_) if a_[0] == 0 else (b_, a_)
                            v = (kk[1] * o_[0], kk[1] * o_[1])
                        elif op == "Shl" and b_[0] == 0 and 0 <= b_[1] < 32:
                            v = (a_[0] << b_[1], a_[1] << b_[1])
                        elif op == "BitOr" and (a_[0] == 0 or b_[0] == 0):
                            kk, o_ = (a_, b_) if a_[0] == 0 else (b_, a_)
                            n_ = max(1, kk[1].bit_length())
                            if kk[1] >= 0 and o_[0] % (1 << n_) == 0 and o_[1] % (1 << n_) == 0:
                                v = (o_[0], o_[1] + kk[1])
                        if v is not None:
                            pa = mirq.operand_place(rv["a"])
                            w = _int_width(mirq.local_ty(b, pa["l"])) if pa else None
                            w = w or _int_width(mirq.local_ty(b, st["place"]["l"]).strip("()").split(",")[0])
                            hi = max(v[1], v[0] * 65535 + v[1])
                            lo = min(v[1], v[0] * 65535 + v[1])
                            if w is not None and (hi >= (1 << w) or lo < 0):
                                OVERFLOWS.append("%s: %s of width u%d evaluates to %d*x+%d, which leaves the type for some u16 binding power x (max %d)"
                                                 % (b["qname"], rv["op"], w, v[0], v[1], hi))
                            if rv["op"].endswith("WithOverflow"):
                                v = ("pair", v)
                if v is not None:
                    val[st["place"]["l"]] = v
                else:
                    val.pop(st["place"]["l"], None)
            t = bl["term"]
            if t["k"] == "call" and not t["dest"]["p"]:
                f_ = mirq.callee_of(t)
                dv = None
                if f_ is not None and f_["name"] in ("from", "into") and len(t["args"]) == 1 and f_.get("krate") != "chumsky":
                    dv = operand(t["args"][0]["op"])
                    if isinstance(dv, tuple) and dv and dv[0] == "bool":
                        dv = (0, int(dv[1]))
                    if isinstance(dv, tuple) and dv and dv[0] == "pair":
                        dv = None
                elif f_ is not None and f_.get("krate") == "chumsky" and len(t["args"]) == 1 and operand(t["args"][0]["op"]) == "self":
                    cb = N.local_body(_nf._callee_id(f_))
                    if cb is not None:
                        sub = _affine_eval_arm(facts, cb, arm, "self", depth + 1)
                        if sub is not None and len(sub) == 1:
                            dv = list(sub)[0]
                            dv = ("tuple", list(dv[1])) if isinstance(dv, tuple) and dv and dv[0] == "tuple" else dv
                if dv is not None:
                    val[t["dest"]["l"]] = dv
                else:
                    val.pop(t["dest"]["l"], None)
            if t["k"] == "switch" and idx not in (None, "loop"):
                sv = operand(t["op"])
                ch = mirq.switch_choice(b, bb, idx)
                if sv == ("discr",):
                    listed = [int(v) for v, _ in t["targets"]]
                    if ch == "otherwise":
                        if arm in listed:
                            feasible = False
                    elif int(ch) != arm:
                        feasible = False
                elif isinstance(sv, tuple) and sv and sv[0] == "bool":
                    want = 1 if sv[1] else 0
                    if ch == "otherwise":
                        if want in [int(v) for v, _ in t["targets"]]:
                            feasible = False
                    elif int(ch) != want:
                        feasible = False
            if not feasible:
                break
        if not feasible:
            continue
        rv0 = val.get(0)
        if rv0 is None:
            return None
        if isinstance(rv0, tuple) and rv0 and rv0[0] == "tuple":
            if any(x is None for x in rv0[1]):
                return None
            rv0 = ("tuple", tuple(rv0[1]))
        out.add(rv0)
    return out or None


def rule_affine(facts):
    r = RuleResult("AFFINE")
    lp = facts.find("pratt::Associativity::left_power")
    rp = facts.find("pratt::Associativity::right_power")
    if len(lp) != 1 or len(rp) != 1:
        if "pratt" in facts.features:
            r.errors.append("anchors Associativity::left_power/right_power: %d/%d bodies" % (len(lp), len(rp)))
        r.explanation = "pratt feature off"
        return r
    adt = facts.adts.get("pratt::Associativity")
    variants = [v["name"] for v in adt["variants"]] if adt else []
    del OVERFLOWS[:]
    L = _affine_of_body(lp[0])
    R = _affine_of_body(rp[0])
    if not (L and R and len(L) >= 1 and len(R) >= 1 and all(len(v) == 1 for v in list(L.values()) + list(R.values())) and len(L) + len(R) >= 3):
        # the powers may be computed through a shared private helper (a tuple of (scaled power, is_right), a bool turned into the
        # tie-breaking bit): evaluate each function arm by arm with crate-local helpers evaluated in place
        L2, R2 = {}, {}
        for arm in range(len(variants)):
            a_ = _affine_eval_arm(facts, lp[0], arm, "self")
            b_ = _affine_eval_arm(facts, rp[0], arm, "self")
            if a_:
                L2[arm] = {x for x in a_ if isinstance(x[0], int)}
            if b_:
                R2[arm] = {x for x in b_ if isinstance(x[0], int)}
        if len(L2) == len(variants) and len(R2) == len(variants) and all(len(v) == 1 for v in list(L2.values()) + list(R2.values())):
            L, R = L2, R2
    for note in sorted(set(OVERFLOWS)):
        r.ob(False)
        r.violations.append(V("AFFINE", "pratt::Associativity", "no overflow",
                              "binding-power arithmetic overflows its integer type: %s" % note, *loc(lp[0])))

    def get(tab, name):
        idx = variants.index(name)
        vals = tab.get(idx) or tab.get("otherwise")
        # `otherwise` stands for the variant not listed
        if vals is None:
            return None
        vals = set(vals)
        return list(vals)[0] if len(vals) == 1 else None
    ok_all = True
    info = {}
    for name in ("Left", "Right"):
        if name not in variants:
            r.errors.append("Associativity has no variant %s" % name)
            return r
    ll, lr, rl, rr = get(L, "Left"), get(R, "Left"), get(L, "Right"), get(R, "Right")
    info = {"left_power(Left x)": ll, "right_power(Left x)": lr, "left_power(Right x)": rl, "right_power(Right x)": rr}
    if None in (ll, lr, rl, rr):
        r.ob(False)
        r.violations.append(V("AFFINE", "pratt::Associativity", "not affine",
                              "left_power/right_power could not be evaluated to affine functions a*x+c of the binding power per arm: %s" % info, *loc(lp[0])))
    else:
        X = 65535  # u16 binding power

        def rng(f):
            lo = f[1] if f[0] >= 0 else f[0] * X + f[1]
            hi = f[0] * X + f[1] if f[0] >= 0 else f[1]
            return lo, hi
        obligations = [
            ("left-assoc: equal powers group left  (L(Left x) < R(Left x) for all x)", ll[0] == lr[0] and ll[1] < lr[1]),
            ("right-assoc: equal powers group right (L(Right x) > R(Right x), so R <= L)", rl[0] == rr[0] and rl[1] > rr[1]),
            ("same slope for all four (powers of different operators are comparable)", len({ll[0], lr[0], rl[0], rr[0]}) == 1 and ll[0] >= 2),
            ("x < y  =>  every power of x is below every power of y (slope >= spread + 1)",
             ll[0] >= max(ll[1], lr[1], rl[1], rr[1]) - min(ll[1], lr[1], rl[1], rr[1]) + 1),
            ("no overflow: max power fits u32", max(rng(f)[1] for f in (ll, lr, rl, rr)) < 2 ** 32 and min(rng(f)[0] for f in (ll, lr, rl, rr)) >= 0),
        ]
        for text, ok in obligations:
            r.ob(ok)
            if not ok:
                ok_all = False
                r.violations.append(V("AFFINE", "pratt::Associativity", text.split(":")[0].split("(")[0].strip(),
                                      "binding-power obligation fails: %s; computed %s" % (text, info), *loc(lp[0])))
    r.explanation = ("Associativity::left_power / right_power are evaluated symbolically per enum arm in the affine domain a*x+c over the "
                     "u16 binding power x (widened to u32) and the associativity / precedence / no-overflow inequalities are discharged in "
                     "closed form: %s" % info)
    r.nontrivial = 4
    r.samples = [info]
    r.require_floor(len([v for v in info.values() if v]), facts, "AFFINE.arms", "power function arms evaluated")
    return r


# ====================================================================== ERR-SPAN (error construction keeps span / found)

def rule_err_span(facts):
    """All error flavours are built from the same (expected, found, span) triple: expected_found stores the span and
    found arguments unchanged; replace_expected_found re-homes the error at the new span on every path (and
    clears stale contexts); the trait defaults forward the triple in order."""
    r = RuleResult("ERR-SPAN")
    n = 0
    for b in facts.bodies:
        if b["kind"] == "Closure":
            continue
        tr = b.get("impl_trait") or b.get("in_trait")
        if tr != "label::LabelError":
            continue
        adt = facts.adts.get(b.get("impl_self_adt") or "")
        fields = [f["name"] for v in (adt["variants"] if adt else []) for f in v["fields"]]
        pv = Prov(b)
        if b["name"] == "expected_found":
            n += 1
            ret = pv.of_local(0)
            aggs = [x for x in ret if x[0] == "aggf"]
            ok = len(aggs) == 1
            why = fmt_roots(ret)
            if ok:
                d = dict(aggs[0][2])
                if "span" in d:
                    ok = ok and set(d["span"]) == {("arg", 3)}
                if "found" in d:
                    ok = ok and set(d["found"]) == {("arg", 2)}
                else:
                    # Rich keeps `found` inside its reason
                    if "reason" in d:
                        ok = ok and mirq.roots_mention(d["reason"], lambda x: isinstance(x, tuple) and x[0] == "aggf" and any(k == "found" and set(v) == {("arg", 2)} for k, v in x[2]))
            r.ob(ok)
            if not ok:
                r.violations.append(V("ERR-SPAN", b["uname"], "expected_found stores span/found",
                                      "%s must store the `span` argument (and `found`) unchanged; builds %s" % (b["uname"], why[:300]), *loc(b)))
        elif b["name"] == "replace_expected_found":
            n += 1
            if b.get("in_trait"):
                ret = pv.of_local(0)
                ok = any(x[0] == "call" and x[1] == "expected_found" and [set(a) for a in x[3]] == [{("arg", 2)}, {("arg", 3)}, {("arg", 4)}] for x in ret)
                r.ob(ok)
                if not ok:
                    r.violations.append(V("ERR-SPAN", b["uname"], "default forwards the triple", "default replace_expected_found must be expected_found(expected, found, span); found %s" % fmt_roots(ret), *loc(b)))
                continue
            # impl on an ADT with a span field: `self.span = span` on every path
            if "span" in fields:
                ws = [i for i, bl, s in assigns(b) if s["place"]["l"] == 1 and mirq.field_path(s["place"]) == ["span"]
                      and pv.of_rvalue(s["rv"], 0) == {("arg", 4)}]
                rets = set(mirq.return_blocks(b))
                ok = bool(ws) and not (mirq.reachable(b, 0, avoid=set(ws)) & rets)
                r.ob(ok)
                if not ok:
                    r.violations.append(V("ERR-SPAN", b["uname"], "span replaced on every path",
                                          "replace_expected_found must assign the new span to self.span on every path (a later failure "
                                          "that replaces an earlier error would otherwise report the old span)", *loc(b)))
            if "context" in fields:
                cl = [i for i, bl, t, f in calls(b) if f is not None and f["name"] == "clear"
                      and pv.of_operand(t["args"][0]["op"]) == {("arg", 1, "context")}]
                rets = set(mirq.return_blocks(b))
                ok = bool(cl) and not (mirq.reachable(b, 0, avoid=set(cl)) & rets)
                r.ob(ok)
                if not ok:
                    r.violations.append(V("ERR-SPAN", b["uname"], "contexts cleared on every path",
                                          "replace_expected_found must clear the label contexts of the replaced error on every path", *loc(b)))
        elif b["name"] == "merge_expected_found" and b.get("in_trait"):
            n += 1
            ret = pv.of_local(0)
            ok = any(x[0] == "call" and x[1] == "merge" and len(x[3]) == 2 and set(x[3][0]) == {("arg", 1)}
                     and any(y[0] == "call" and y[1] == "expected_found" and [set(a) for a in y[3]] == [{("arg", 2)}, {("arg", 3)}, {("arg", 4)}] for y in x[3][1])
                     for x in ret)
            r.ob(ok)
            if not ok:
                r.violations.append(V("ERR-SPAN", b["uname"], "default merges the triple", "default merge_expected_found must be self.merge(expected_found(expected, found, span)); found %s" % fmt_roots(ret), *loc(b)))
    # merging two failures at one position never re-homes the error: the result keeps the span of `self` (the error that was
    # recorded first).  Decided for the trait defaults and for EVERY impl of Error::merge / LabelError::merge_expected_found,
    # including ones added later: Cheap/Simple/Rich must agree on the span, so an override that returns `other` (or builds
    # the result around other's / the new span) on some path makes one error type report a different span for the same failure.
    nm = 0
    for b in facts.bodies:
        if b["kind"] == "Closure":
            continue
        tr = b.get("impl_trait") or b.get("in_trait")
        if not ((tr == "error::Error" and b["name"] == "merge") or (tr == "label::LabelError" and b["name"] == "merge_expected_found")):
            continue
        nm += 1
        pv = Prov(b)
        ret = pv.of_local(0)
        bad = []
        for x in ret:
            if x == ("arg", 1):
                continue
            if x[0] == "aggf":
                d = dict(x[2])
                if "span" in d and not set(d["span"]) <= {("arg", 1, "span")}:
                    bad.append("span <- %s" % fmt_roots(d["span"]))
                continue
            if x[0] == "call" and x[1] == "merge" and len(x[3]) == 2 and set(x[3][0]) == {("arg", 1)}:
                continue        # default merge_expected_found: self.merge(new): decided by the merge it resolves to
            if x[0] == "arg" and x[1] != 1:
                bad.append("returns argument %d" % x[1])
            elif x[0] == "call":
                # built by a call: the receiver / first operand must be rooted in self only
                if not x[3] or not all(y[0] == "arg" and y[1] == 1 for y in x[3][0]):
                    bad.append("built by %s" % fmt_root(x)[:120])
        ok = not bad
        r.ob(ok)
        if not ok:
            r.violations.append(V("ERR-SPAN", b["uname"], "merge keeps the span of self",
                                  "%s: merging two failures recorded at the same position must keep the span of the error recorded first "
                                  "(`self`) on every path -- Cheap, Simple and Rich report the same span only then; found: %s"
                                  % (b["uname"], "; ".join(sorted(set(bad)))[:300]), *loc(b)))
    n += nm
    r.explanation = ("%d LabelError bodies: every expected_found stores its span (and found) argument unchanged, so Cheap/Simple/Rich report "
                     "the same span for the same failure; replace_expected_found assigns the new span and clears contexts on every path; "
                     "trait defaults forward (expected, found, span) in order" % n)
    r.nontrivial = n
    r.samples = [{"bodies": n}]
    r.require_floor(n, facts, "ERR-SPAN.bodies", "LabelError bodies inspected")
    return r


# ====================================================================== ORDER-ARMS (priority of the pending error)

ORDER_EXPECT = {
    "input::InputRef::add_alt_err": {
        "cmp": ("cursor_location(take(arg1.errors.alt).0.pos)", "cursor_location(arg2)"),
        "Less": "Option{0: at(arg2, arg3)}",
        "Equal": "Option{0: at(take(arg1.errors.alt).0.pos, merge(take(arg1.errors.alt).0.err, arg3))}",
        "Greater": "Option{0: take(arg1.errors.alt).0}",
        "None": "Option{0: at(arg2, arg3)}",
    },
    "input::InputRef::add_alt": {
        "cmp": ("cursor_location(take(arg1.errors.alt).0.pos)", "cursor_location(arg1.cursor)"),
        "Less": "Option{0: at(arg1.cursor, replace_expected_found(take(arg1.errors.alt).0.err, arg2, arg3, arg4))}",
        "Equal": "Option{0: at(take(arg1.errors.alt).0.pos, merge_expected_found(take(arg1.errors.alt).0.err, arg2, arg3, arg4))}",
        "Greater": "Option{0: take(arg1.errors.alt).0}",
        "None": "Option{0: at(arg1.cursor, expected_found(arg2, arg3, arg4))}",
    },
}


def _uncompared_reason(b, path):
    """Why a path of add_alt/add_alt_err may store without comparing positions: 'none-pending' (switch on the discriminant of the
    value taken from errors.alt, value 0) or 'zero-sized' (size_of::<E::Error>() == 0 holds); None if neither fact is on the path."""
    pp_ = mirq.PathProv(b, path)
    for bb, idx in path:
        t = b["blocks"][bb]["term"]
        if t["k"] != "switch" or idx in (None, "loop"):
            continue
        op = mirq.operand_place(t["op"])
        if op is None:
            continue
        ch = mirq.switch_choice(b, bb, idx)
        listed = [v for v, _ in t["targets"]]
        for x in pp_.of_place(op):
            if x[0] == "discr" and (ch == 0 or (ch == "otherwise" and listed == [1])):
                src = fmt_roots(x[1])
                if "errors.alt" in src:
                    return "none-pending"
            if x[0] == "bin" and x[1] in ("Eq", "Ne"):
                holds = (ch != 0) if x[1] == "Eq" else (ch == 0)
                sides = [fmt_roots(x[2]), fmt_roots(x[3])]
                if holds and any(_int_lit(z) == 0 for z in sides) and any(z == "size_of()" for z in sides) and _size_of_error(b, path):
                    return "zero-sized"
    return None


def _int_lit(z):
    m = re.match(r"^(?:const )?(\d+)_(?:usize|u\d+|i\d+|isize)$", z.strip())
    return int(m.group(1)) if m else None


def _size_of_error(b, path):
    """The size_of call on the path is instantiated with the parser's error type (E::Error), nothing else."""
    n = 0
    for bb, _ in path:
        t = b["blocks"][bb]["term"]
        f = callee_of(t) if t["k"] == "call" else None
        if f is not None and f["name"] == "size_of" and f.get("krate") in ("core", "std"):
            n += 1
            a = f.get("args") or []
            if len(a) != 1 or not re.match(r"^<E as extra::ParserExtra<'_, I>>::Error$", a[0]):
                return False
    return n >= 1


def rule_order_arms(facts):
    """The pending primary error is replaced by a later failure, merged with an equal-positioned one, kept otherwise."""
    from rules_hooks import is_field
    r = RuleResult("ORDER-ARMS")
    for q, exp in ORDER_EXPECT.items():
        b = facts.one(q)
        pv = Prov(b)
        cmps = [(i, t) for i, bl, t, f in calls(b) if f is not None and f["name"] == "cmp"]
        # the two positions may be compared by one `cmp` call or by primitive `<` / `>` / `==` tests (an if-chain): every such
        # comparison of exactly (pending position, new position), in either operand order, refines the ordering known on a path
        REL = {"Lt": {"Less"}, "Le": {"Less", "Equal"}, "Gt": {"Greater"}, "Ge": {"Greater", "Equal"}, "Eq": {"Equal"}, "Ne": {"Less", "Greater"}}
        FLIP = {"Less": "Greater", "Greater": "Less", "Equal": "Equal"}
        bin_tests = {}        # local holding the bool -> set of orderings under which it is true
        other_cmp = []
        for _, bl, s_ in assigns(b):
            rv = s_["rv"]
            if rv["k"] == "bin" and rv["op"] in REL and not s_["place"]["p"]:
                a0 = fmt_roots(pv.of_operand(rv["a"]))
                a1 = fmt_roots(pv.of_operand(rv["b"]))
                if (a0, a1) == exp["cmp"]:
                    bin_tests[s_["place"]["l"]] = set(REL[rv["op"]])
                elif (a1, a0) == exp["cmp"]:
                    bin_tests[s_["place"]["l"]] = {FLIP[x] for x in REL[rv["op"]]}
                elif exp["cmp"][0] in (a0, a1) or exp["cmp"][1] in (a0, a1):
                    other_cmp.append("%s(%s, %s)" % (rv["op"], a0, a1))
        ok = len(cmps) == 1 or (not cmps and bool(bin_tests))
        d = "%d cmp calls, %d primitive comparisons of the two positions%s" % (len(cmps), len(bin_tests), (" (other comparisons: %s)" % other_cmp) if other_cmp else "")
        cmp_dest = None
        if cmps and ok:
            a0 = fmt_roots(pv.of_operand(cmps[0][1]["args"][0]["op"]))
            a1 = fmt_roots(pv.of_operand(cmps[0][1]["args"][1]["op"]))
            ok = (a0, a1) == exp["cmp"]
            d = "cmp(%s, %s)" % (a0, a1)
            cmp_dest = cmps[0][1]["dest"]["l"]
        r.ob(ok)
        r.samples.append({q.split("::")[-1]: d})
        if not ok:
            r.violations.append(V("ORDER-ARMS", q, "comparison operands",
                                  "%s must compare (position of the pending error) with (position of the new error) in that order; found %s"
                                  % (q.split("::")[-1], d), *loc(b)))
            continue
        # discriminant locals of the cmp result and of the taken Option
        disc_cmp = {s["place"]["l"] for _, _, s in assigns(b) if s["rv"]["k"] == "discr" and s["rv"]["place"]["l"] == cmp_dest} if cmp_dest is not None else set()
        seen = {}
        nocmp = {}
        flagged = set()
        for path in mirq.paths(b):
            arm = None
            took_option = None
            poss = {"Less", "Equal", "Greater"}
            compared = False
            for bb, idx in path:
                t = b["blocks"][bb]["term"]
                if t["k"] == "switch" and idx not in (None, "loop"):
                    op = mirq.operand_place(t["op"])
                    if op is not None and op["l"] in disc_cmp:
                        ch = mirq.switch_choice(b, bb, idx)
                        arm = {255: "Less", -1: "Less", 0: "Equal", 1: "Greater"}.get(ch, "other")
                        compared = True
                    elif op is not None and not op["p"] and op["l"] in bin_tests:
                        ch = mirq.switch_choice(b, bb, idx)
                        truth = bin_tests[op["l"]]
                        if ch == 0:
                            poss &= ({"Less", "Equal", "Greater"} - truth)
                        else:
                            poss &= truth
                        compared = True
            if compared and arm is None:
                if not poss:
                    continue            # infeasible combination of test outcomes
                arm = next(iter(poss)) if len(poss) == 1 else "other"
            has_cmp = compared or (bool(cmps) and any(bb == cmps[0][0] for bb, _ in path))
            if not has_cmp:
                arm = "None"
                # a path that stores without comparing positions is legitimate only when nothing is pending, or when the
                # error type is zero-sized (nothing to prioritise or merge): find the fact that justifies it
                why = _uncompared_reason(b, path)
                r.ob(why is not None)
                nocmp.setdefault(why, 0)
                nocmp[why] += 1
                if why is None and q not in flagged:
                    flagged.add(q)
                    r.violations.append(V("ORDER-ARMS", q, "store without comparison",
                                          "%s overwrites errors.alt on a path that neither compares the two positions nor is guarded by "
                                          "`no error pending` (None arm of the taken slot) or `size_of::<E::Error>() == 0`: the furthest / "
                                          "merged error is lost for every error type that reaches this path" % q.split("::")[-1], *loc(b)))
            pp_ = mirq.PathProv(b, path)
            w = None
            for bb, _ in path:
                for s in b["blocks"][bb]["stmts"]:
                    if s["k"] == "assign" and is_field(s["place"], "input::Errors", "alt"):
                        w = fmt_roots(pp_.of_rvalue(s["rv"], 0))
            seen.setdefault(arm, set()).add(w)
        for arm in ("Less", "Equal", "Greater", "None"):
            got = seen.get(arm, set())
            ok = got == {exp[arm]}
            r.ob(ok)
            if not ok:
                r.violations.append(V("ORDER-ARMS", q, "arm %s" % arm,
                                      "when the pending error is %s the new one, errors.alt must become `%s`; the code stores %s"
                                      % ({"Less": "earlier than", "Equal": "at the same position as", "Greater": "later than", "None": "absent and there is only"}[arm],
                                         exp[arm], sorted(map(str, got))), *loc(b)))
        extra = set(seen) - {"Less", "Equal", "Greater", "None"}
        r.ob(not extra)
        if extra:
            r.violations.append(V("ORDER-ARMS", q, "unclassified path", "paths with ordering arm %s" % sorted(map(str, extra)), *loc(b)))
    r.explanation = ("add_alt / add_alt_err: per Ordering arm of cmp(pending.pos, new.pos) (operand order checked) the value stored in errors.alt "
                     "is: later new error -> replaces (at new position), equal -> merged at the pending position, earlier -> pending kept, "
                     "no pending -> new error; decided by path-sensitive provenance of the stored value")
    r.explanation += ("; a path that stores without comparing is justified only by `no error pending` or `size_of::<E::Error>() == 0` "
                      "(instantiated with the parser's error type)")
    r.nontrivial = 10
    return r


# ====================================================================== CALL-PROV tables (small unsafe primitives)

_NF = {}


def effects_nf(facts, b):
    """What body `b` does, in normal form (engine/nf.py): maximal call terms with always / sometimes / each flags."""
    import nf
    k = id(facts)
    if k not in _NF:
        _NF.clear()
        _NF[k] = nf.Normalizer(facts)
    return nf.effects(_NF[k], b)


def call_prov_of(facts, b):
    """Each call of body `b` as 'callee(arg provenance, ..) [always|sometimes]', plus what closures passed along do."""
    pv = Prov(b)
    rets = set(mirq.return_blocks(b))
    out = []
    for i, bl, t, f in calls(b):
        if f is None:
            nm = "<indirect>"
        else:
            nm = f["name"]
            if nm in ("deref", "deref_mut", "borrow", "borrow_mut", "as_ref", "as_mut", "into_iter") and f["krate"] != "chumsky":
                continue
            if "precondition_check" in nm or "panic" in callee_path(f):
                continue
        args = ", ".join(fmt_roots(pv.of_operand(a["op"])) for a in t["args"])
        always = not (mirq.reachable(b, 0, avoid={i}) & rets)
        out.append("%s(%s) [%s]" % (nm, args, "always" if always else "sometimes"))
    for c in mirq.closure_bodies(facts, b, recursive=False):
        cpv = Prov(c)
        for i, bl, t, f in calls(c):
            if f is None or f["name"] in ("deref", "deref_mut"):
                continue
            out.append("closure: %s(%s)" % (f["name"], ", ".join(fmt_roots(cpv.of_operand(a["op"])) for a in t["args"])))
    return sorted(out)


def rule_container_prov(facts):
    import container_table as CT
    r = RuleResult("CONTAINER-PROV")
    n = 0
    comp = {}
    for b in facts.bodies:
        if b["kind"] == "Closure":
            continue
        tr = b.get("impl_trait") or ""
        if tr.split("::")[-1] not in ("ContainerExactly", "MaybeUninitExt"):
            continue
        key = b["qname"]
        if key not in CT.CALLS:
            moved = [k for k in CT.CALLS if mirq.short_key(k) == mirq.short_key(key)]
            if len(moved) == 1:
                key = moved[0]          # the trait was moved to another module: same reviewed primitive
        n += 1
        got = effects_nf(facts, b)
        comp[key] = got
        want = CT.CALLS.get(key)
        ok = want is not None and (sorted(want) == got or __import__("nf").equal_up_to_renaming(got, want))
        r.ob(ok)
        if not ok:
            r.violations.append(V("CONTAINER-PROV", key, "fixed-size container primitive",
                                  "%s must perform exactly the reviewed operations on the reviewed operands (which slots are written / "
                                  "dropped / taken, unconditionally); computed %s, expected %s" % (key, got, want), *loc(b)))
    for key in CT.CALLS:
        if key not in comp:
            r.errors.append("anchor %s: no such body" % key)
    r.explanation = ("the %d ContainerExactly / MaybeUninitExt primitives (uninit, write slot i, drop slots ..i, take all) perform exactly the "
                     "reviewed calls on the reviewed operands, each unconditionally (spec/container_table.py): write(i) touches slot i, "
                     "drop_before(i) drops the range ..i from slot 0, Box<C> forwards to C on every path" % n)
    r.nontrivial = n
    r.info = {"computed": comp}
    r.samples = [{k: v} for k, v in list(comp.items())[:3]]
    r.require_floor(n, facts, "CONTAINER-PROV.bodies", "container primitive bodies")
    return r


# ====================================================================== NONCONSUMPTION forwarding (progress assertions)

def rule_nonconsumption(facts):
    """An IterParser that forwards to an inner IterParser must forward its NONCONSUMPTION_IS_OK, otherwise the
    debug progress assertions of collect/foldl/foldr fire on well-formed grammars (a panic: C20)."""
    r = RuleResult("NONCONSUMPTION-FWD")
    n = 0
    for im in facts.impls:
        if im.get("trait") != "IterParser":
            continue
        adt = im.get("self_adt")
        nexts = [b for b in facts.bodies if b.get("impl_path") == im["path"] and b["name"] == "next" and b["kind"] != "Closure"]
        inner = False

        def drives_inner(f):
            # a call to next/next_cfg of ANOTHER iterable parser (a delegation to a sibling method of the same type is not one)
            if f is None or f.get("trait") not in ("IterParser", "ConfigIterParser") or f["name"] not in ("next", "next_cfg"):
                return False
            return ((f.get("resolved") or {}).get("self_adt") or f.get("self_adt")) != adt or adt is None
        for b in nexts:
            for _, bl, t, f in calls(b):
                if drives_inner(f):
                    inner = True
            for c in mirq.closure_bodies(facts, b):
                for _, bl, t, f in calls(c):
                    if drives_inner(f):
                        inner = True
        if not inner:
            continue
        n += 1
        has = any(i["name"] == "NONCONSUMPTION_IS_OK" for i in im["items"])
        r.ob(has)
        if not has:
            r.violations.append(V("NONCONSUMPTION-FWD", adt, "progress flag not forwarded",
                                  "IterParser for %s iterates an inner IterParser but does not define NONCONSUMPTION_IS_OK (the trait default "
                                  "is false): collect/foldl/foldr's debug progress assertion panics when the inner iterator may legitimately "
                                  "yield without consuming" % adt, im.get("file"), im.get("line")))
    r.explanation = "%d IterParser impls that drive an inner IterParser all define (forward) NONCONSUMPTION_IS_OK" % n
    r.nontrivial = n
    r.samples = [{"wrappers": n}]
    r.require_floor(n, facts, "NONCONSUMPTION-FWD.wrappers", "IterParser wrappers")
    return r


# ====================================================================== SEQ-PROV (token-set membership)

# in effects normal form (engine/nf.py): iteration plumbing, closures and delegation to a sibling impl are erased
SEQ_ALLOWED = [
    ["eq(arg1, arg2) [always]"],
    ["contains(arg1, arg2) [always]"],
    ["contains(new(arg1), arg2) [always]"],
    ["eq(elem(arg1), arg2) [each]"],
    ["eq(elem(new(arg1)), arg2) [each]"],
]


def rule_seq_prov(facts):
    """`one_of`/`none_of`/`just` decide membership through `Seq::contains`: every impl must test the token
    against the whole container with the element type's own equality (no re-encoding, no partial scan)."""
    r = RuleResult("SEQ-PROV")
    n = 0
    for b in facts.bodies:
        if b["kind"] == "Closure" or b.get("impl_trait") != "container::Seq" or b["name"] != "contains":
            continue
        n += 1
        got = effects_nf(facts, b)
        ok = got in [sorted(x) for x in SEQ_ALLOWED]
        r.ob(ok)
        if len(r.samples) < 3:
            r.samples.append({b["qname"]: got})
        if not ok:
            r.violations.append(V("SEQ-PROV", b["qname"], "membership test",
                                  "Seq::contains for this container must be the container's own `contains(self, val)` / `==` on the "
                                  "token (so that one_of/none_of accept exactly the listed tokens); found %s" % got, *loc(b)))
    r.explanation = ("all %d `container::Seq::contains` impls delegate membership to the container's own contains()/== on (self, token), "
                     "unconditionally" % n)
    r.nontrivial = n
    r.require_floor(n, facts, "SEQ-PROV.impls", "Seq::contains impls")
    return r


# ====================================================================== ENTRY-SIB (parse vs check entry points)

def rule_entry_sib(facts):
    """parse_with_state and check_with_state are the same code modulo the mode."""
    r = RuleResult("ENTRY-SIB")
    a = facts.find("Parser::parse_with_state")
    b = facts.find("Parser::check_with_state")
    if len(a) != 1 or len(b) != 1:
        r.errors.append("anchors parse_with_state/check_with_state: %d/%d" % (len(a), len(b)))
        return r

    def sig(x):
        out = []
        for s in call_prov_of(facts, x):
            if s.startswith("new(Option{") or s.startswith("new(Option"):
                s = "new(<Some(output) | None>, <errors>)"      # parse wraps the output, check wraps ()
            out.append(s)
        # mode of the go call
        modes = []
        for _, bl, t, f in calls(x):
            if f is not None and f["name"] == "go":
                modes += [m.split("::")[-1] for m in f.get("args", []) if m in ("private::Emit", "private::Check")]
        return sorted(out), modes
    sa, ma = sig(a[0])
    sb, mb = sig(b[0])
    ok = sa == sb and ma == ["Emit"] and mb == ["Check"]
    r.ob(ok)
    r.samples.append({"calls": sa[:6], "modes": [ma, mb]})
    if not ok:
        diff = sorted(set(sa) ^ set(sb))
        r.violations.append(V("ENTRY-SIB", "Parser::check_with_state", "entry points differ beyond the mode",
                              "parse_with_state and check_with_state must perform the same calls on the same operands (run the grammar, take "
                              "the pending error, collect the error list, push on failure) and differ only in Emit vs Check; differing: %s; "
                              "modes %s/%s" % (diff[:6], ma, mb), *loc(b[0])))
    r.explanation = "parse_with_state and check_with_state have identical call/operand provenance (%d calls) and differ only in the mode of `go`" % len(sa)
    r.nontrivial = 1
    return r


# ====================================================================== MERGE-ARMS (Rich: a user-supplied error survives a merge)

_GROW = {"push", "append", "extend", "extend_from_slice", "insert", "push_back", "push_front", "extend_from_within", "resize", "splice"}


def _unfiltered_growth(b):
    """Calls in `b` that add elements to a Vec and are not a `push` control-dependent on the `absent` outcome of a membership test."""
    dom = mirq.dominators(b)
    tests = {}
    for i, bl, t, f in calls(b):
        if f is not None and f["name"] in ("contains", "any", "all") and f.get("krate") in ("core", "std", "alloc") and not t["dest"]["p"]:
            tests[i] = (t["dest"]["l"], f["name"])
    out = []
    for i, bl, t, f in calls(b):
        if f is None or f["name"] not in _GROW or f.get("krate") not in ("alloc", "std", "core"):
            continue
        if "Vec" not in (f.get("self_ty") or ""):
            continue
        if f["name"] != "push":
            out.append((f["name"], bl["line"]))
            continue
        ok = False
        for ti, (rl, nm) in tests.items():
            if ti not in dom.get(i, ()):
                continue
            # the switch on the test result (possibly through `!`) that separates test and push
            for si, sbl in enumerate(b["blocks"]):
                st = sbl["term"]
                if st["k"] != "switch" or ti not in dom.get(si, ()) or si not in dom.get(i, ()):
                    continue
                op = mirq.operand_place(st["op"])
                if op is None or op["p"]:
                    continue
                neg = None
                if op["l"] == rl:
                    neg = False
                else:
                    for s_ in sbl["stmts"]:
                        if s_["k"] == "assign" and s_["place"]["l"] == op["l"] and not s_["place"]["p"] and s_["rv"]["k"] == "un" and s_["rv"].get("op") == "Not":
                            src = mirq.operand_place(s_["rv"]["a"]) if "a" in s_["rv"] else None
                            if src is not None and src["l"] == rl:
                                neg = True
                if neg is None:
                    continue
                # which outcome of the switch leads to the push?
                ss = mirq.succs(b, si)
                lead = [k for k, sx in enumerate(ss) if sx == i or sx in dom.get(i, ())]
                if len(lead) != 1:
                    continue
                val = mirq.switch_choice(b, si, lead[0])
                truth = (val != 0)              # value of the switched bool on the edge towards the push
                present = (not truth) if neg else truth
                if nm == "all":                 # all(|x| x != e) == true  <=>  absent
                    present = not present
                if not present:
                    ok = True
        if not ok:
            out.append(("push", bl["line"]))
    return out


def rule_merge_arms(facts):
    """`RichReason::flat_merge(self, other)`: a Custom (user-supplied) reason on either side is what the merge
    returns (the first one if both are); two ExpectedFound reasons give an ExpectedFound that keeps self's `found`."""
    r = RuleResult("MERGE-ARMS")
    bs = facts.find("error::RichReason::flat_merge")
    if len(bs) != 1:
        r.errors.append("anchor error::RichReason::flat_merge: %d bodies" % len(bs))
        return r
    b = bs[0]
    adt = facts.adts.get("error::RichReason")
    names = [v["name"] for v in adt["variants"]]
    # the tuple (self, other) and the discriminant reads of its two components
    disc = {}
    for _, bl, s in assigns(b):
        if s["rv"]["k"] == "discr":
            fl = mirq.place_fields(s["rv"]["place"])
            base = pvroots = None
            comp = [x for x in fl if x in ("0", "1")]
            if comp and not s["place"]["p"]:
                disc[s["place"]["l"]] = int(comp[0])
    seen = {}
    try:
        ps = mirq.paths(b, limit=60000)
    except RuntimeError as e:
        r.errors.append(str(e))
        return r
    for path in ps:
        if path and path[-1][1] == "loop":
            continue        # went once round a loop without reaching the return: no returned value on this prefix
        d = {0: None, 1: None}
        for bb, idx in path:
            t = b["blocks"][bb]["term"]
            if t["k"] == "switch" and idx not in (None, "loop"):
                op = mirq.operand_place(t["op"])
                if op is not None and op["l"] in disc and d[disc[op["l"]]] is None:
                    ch = mirq.switch_choice(b, bb, idx)
                    if ch == "otherwise":
                        listed = [v for v, _ in t["targets"]]
                        rest = [i for i in range(len(names)) if i not in listed]
                        ch = rest[0] if len(rest) == 1 else None
                    d[disc[op["l"]]] = names[ch] if isinstance(ch, int) and ch < len(names) else None
        pp_ = mirq.PathProv(b, path)
        ret = pp_.of_local(0)
        kind = "?"
        if ret == {("arg", 1)} or ret == {("aggf", "tuple", ())}:
            kind = "self"
        if ret == {("arg", 1)}:
            kind = "self"
        elif ret == {("arg", 2)}:
            kind = "other"
        elif any(x[0] == "aggf" and x[1].endswith("RichReason::ExpectedFound") for x in ret):
            agg = [x for x in ret if x[0] == "aggf"][0]
            fd = dict(agg[2]).get("found", frozenset())
            kind = "merged(found<-self)" if fd and fmt_roots(fd).startswith("arg1.") and "arg2" not in fmt_roots(fd) else "merged(found<-%s)" % fmt_roots(fd)
        else:
            kind = fmt_roots(ret)[:80]
        seen.setdefault((d[0], d[1]), set()).add(kind)
    want = {}
    for a in names:
        for c in names:
            if a == "Custom":
                want[(a, c)] = "self"
            elif c == "Custom":
                want[(a, c)] = "other"
            else:
                want[(a, c)] = "merged(found<-self)"
    for (a, c), w in sorted(want.items()):
        got = set()
        for (x, y), ks in seen.items():
            if (x in (a, None)) and (y in (c, None)):
                # a path that did not test a component applies to all its variants
                if x == a or x is None:
                    if y == c or y is None:
                        got |= ks
        # only paths consistent with (a, c): those that tested both, or tested one and it matches
        got = set()
        for (x, y), ks in seen.items():
            if (x is None or x == a) and (y is None or y == c):
                got |= ks
        ok = got == {w}
        r.ob(ok)
        if not ok:
            r.violations.append(V("MERGE-ARMS", b["qname"], "merge of (%s, %s)" % (a, c),
                                  "flat_merge(self: %s, other: %s) must return %s (a user-supplied error at that position is preserved; "
                                  "expected-sets are merged keeping the first `found`); the code returns %s" % (a, c, w, sorted(got)), *loc(b)))
    # ---- the expected sets are merged as SETS: an element is added only when a membership test on the same path said `absent`
    nset = 0
    for q in ("error::RichReason::flat_merge", "error::Rich[label::LabelError]::merge_expected_found"):
        bb_ = [x for x in facts.bodies if x["uname"] == q]
        if len(bb_) != 1:
            r.errors.append("anchor %s: %d bodies" % (q, len(bb_)))
            continue
        for what, line in _unfiltered_growth(bb_[0]):
            nset += 1
            r.ob(False)
            r.violations.append(V("MERGE-ARMS", q, "expected set grows without a membership test (%s)" % what,
                                  "%s merges two expected-sets: every pattern it adds must be added by a `push` that is reached only "
                                  "when a membership test (`contains` / `any`) on the same path found it absent - a bulk `append`/`extend`, "
                                  "an unguarded push or `dedup()` (adjacent duplicates only) makes the merge non-idempotent, so an error "
                                  "that is merged with itself (a memo hit replaying the stored error, the same alternative retried) "
                                  "lists every expectation twice" % q.split("::")[-1], bb_[0]["file"], line))
        nset += 1
        r.ob(True)
    r.explanation = ("RichReason::flat_merge decided per pair of variants by path-sensitive provenance of the returned value: Custom on either "
                     "side is returned (first wins), ExpectedFound x ExpectedFound builds ExpectedFound keeping self's `found` (%d variant pairs)"
                     % len(want))
    r.nontrivial = len(want)
    r.samples = [{"%s x %s" % k: sorted(v)} for k, v in sorted(seen.items(), key=str)[:4]]
    return r


# ====================================================================== MEMO-WRITERS (who may touch the memo table)

def rule_memo_writers(facts):
    """The per-parse memo table is handed down by reference and mutated only by Memoized::go; nobody swaps,
    clears or replaces it (a left-recursion marker must stay visible to re-entrant calls)."""
    from rules_hooks import has_field
    r = RuleResult("MEMO-WRITERS")
    if "memoization" not in facts.features:
        r.explanation = "memoization feature off"
        return r
    allowed = {"combinator::Memoized[Parser]::go"}
    users = {}
    for b in facts.bodies:
        # (a) calls that receive (a reborrow of) InputRef.memos
        holders = set()
        for _, bl, s in assigns(b):
            rv = s["rv"]
            pl = rv.get("place") if rv["k"] in ("ref", "rawptr", "copyderef") else (mirq.operand_place(rv["op"]) if rv["k"] == "use" else None)
            if pl is not None and (has_field(pl, "input::InputRef", "memos") or has_field(pl, "input::InputOwn", "memos") or pl["l"] in holders) and not s["place"]["p"]:
                # copying the reference around is fine; remember who holds it
                holders.add(s["place"]["l"])
        for _, bl, t, f in calls(b):
            for a in t["args"]:
                pl = mirq.operand_place(a["op"])
                if pl is not None and pl["l"] in holders and "HashMap" in a["ty"] and a["ty"].startswith("&mut"):
                    users.setdefault(b["qname"], set()).add(f["name"] if f else "<indirect>")
        # (b) assignment through the reference:  *self.memos = ..
        for _, bl, s in assigns(b):
            pf = mirq.place_fields(s["place"])
            if (has_field(s["place"], "input::InputRef", "memos") and pf and pf[-1] == "*") or (s["place"]["l"] in holders and pf == ["*"]):
                users.setdefault(b["qname"], set()).add("assign")
    for q, ops in sorted(users.items()):
        ok = q in allowed
        r.ob(ok)
        if not ok:
            b = facts.by_qname[q][0]
            r.violations.append(V("MEMO-WRITERS", q, "memo table touched outside Memoized::go",
                                  "%s applies %s to the per-parse memo table: only Memoized::go may read/insert/remove entries (swapping or "
                                  "clearing the table hides in-progress markers and cached results)" % (q, sorted(ops)), *loc(b)))
    r.ob("combinator::Memoized[Parser]::go" in users)
    r.explanation = "the memo table (InputRef.memos) is passed mutably to a callee / assigned through only in %s" % sorted(users)
    r.nontrivial = len(users)
    r.samples = [{q: sorted(o)} for q, o in users.items()]
    return r


# ====================================================================== BUILDER-PROV (bounds / flags setters)

def rule_builder_prov(facts):
    import builder_table as BT
    r = RuleResult("BUILDER-PROV")
    comp = {}
    for b in facts.bodies:
        if b["kind"] == "Closure" or not re.match(r"^(combinator::(Repeated|SeparatedBy|RepeatedCfg|SeparatedByCfg)|primitive::JustCfg)::\w+$", b["qname"]):
            continue
        if b["name"] in ("clone", "fmt", "default"):
            continue
        if b["qname"] not in BT.BUILDERS:
            continue            # a new inherent method (a private protocol helper, a new builder): not reviewed, not judged
        pv = Prov(b)
        writes = []
        rets = set(mirq.return_blocks(b))
        for i, bl, s in assigns(b):
            if s["place"]["l"] == 1 and s["place"]["p"]:
                always = not (mirq.reachable(b, 0, avoid={i}) & rets)
                writes.append("self.%s := %s [%s]" % (".".join(mirq.field_path(s["place"])), fmt_roots(pv.of_rvalue(s["rv"], 0)), "always" if always else "sometimes"))
        ret = fmt_roots(pv.of_local(0))
        comp[b["qname"]] = sorted(writes) + ["returns " + ret]
    n = 0
    for q, got in sorted(comp.items()):
        n += 1
        want = BT.BUILDERS.get(q)
        ok = want is not None and sorted(want) == sorted(got)
        if not ok and want is not None:
            # the order of the fields in the struct definition / literal is not part of what a setter does
            def _canon(xs):
                out = []
                for x in xs:
                    m_ = re.match(r"^(.*?\{)(.*)(\})$", x)
                    if m_:
                        inner = ", ".join(sorted(m_.group(2).split(", ")))
                        x = m_.group(1) + inner + m_.group(3)
                    out.append(x)
                return sorted(out)
            import nf as _nf
            ok = _canon(want) == _canon(got) or _nf.equal_up_to_renaming(_canon(got), _canon(want))
        r.ob(ok)
        if not ok:
            b = facts.by_qname[q][0]
            r.violations.append(V("BUILDER-PROV", q, "bound / flag setter",
                                  "%s must set exactly the reviewed fields from its argument, unconditionally (exactly(n) sets both bounds): "
                                  "computed %s, expected %s" % (q, got, want), *loc(b)))
    for q in BT.BUILDERS:
        if q not in comp:
            r.errors.append("anchor %s: no such builder" % q)
    r.explanation = ("the %d bound/flag builder methods of Repeated / SeparatedBy / RepeatedCfg / JustCfg write exactly the reviewed fields from "
                     "their argument on every path (spec/builder_table.py)" % n)
    r.nontrivial = n
    r.info = {"computed": comp}
    r.samples = [{k: v} for k, v in list(comp.items())[:3]]
    r.require_floor(n, facts, "BUILDER-PROV.builders", "builder methods")
    return r


# ====================================================================== ERR-PROV (label / merge bookkeeping of the error types)

def err_prov_bodies(facts):
    out = []
    for b in facts.bodies:
        if b["kind"] == "Closure":
            continue
        tr = b.get("impl_trait") or b.get("in_trait")
        if tr in ("label::LabelError", "error::Error") and b["name"] in ("label_with", "in_context", "merge_expected_found", "merge"):
            out.append(b)
    return out


_ERR_NF = {
    # effects normal form of the reviewed bodies (engine/nf.py), used when the literal call list differs
    "error::Rich[label::LabelError]::merge_expected_found": None,
}


def _err_prov_nf_reference(facts, q):
    import builder_table as BT
    return sorted(BT.ERR_METHODS_NF[q]) if q in getattr(BT, "ERR_METHODS_NF", {}) else None


def rule_err_prov(facts):
    """How a failure is *described*: label_with replaces the expected set by the label, in_context pushes a (label, span)
    pair once, merge_expected_found adds the new expectation unless present and keeps the first `found`, merge delegates to
    flat_merge -- exactly the reviewed calls on the reviewed operands (spec/builder_table.py ERR_METHODS)."""
    import builder_table as BT
    r = RuleResult("ERR-PROV")
    comp = {}
    for b in err_prov_bodies(facts):
        comp[b["uname"]] = call_prov_of(facts, b)
    n = 0
    for q, got in sorted(comp.items()):
        want = BT.ERR_METHODS.get(q)
        if want is None:
            continue          # a new error type / method: not reviewed, not judged
        n += 1
        ok = sorted(want) == got
        if not ok:
            # the same bookkeeping in effects normal form (a `for` loop vs an adaptor, `v[..].contains` vs `v.contains`, `if let` vs `match`)
            try:
                b_ = [x for x in facts.bodies if x["uname"] == q][0]
                ref_ = _err_prov_nf_reference(facts, q)
                ok = ref_ is not None and ref_ == effects_nf(facts, b_)
            except Exception:
                ok = False
        r.ob(ok)
        if not ok:
            b = facts.by_uname[q] if hasattr(facts, "by_uname") and q in facts.by_uname else None
            bb = [x for x in facts.bodies if x["uname"] == q][0]
            r.violations.append(V("ERR-PROV", q, "label / merge bookkeeping",
                                  "%s must perform exactly the reviewed operations on the reviewed operands: computed %s ; expected %s"
                                  % (q, [x for x in got if x not in want], [x for x in want if x not in got]), *loc(bb)))
    for q in BT.ERR_METHODS:
        if q not in comp:
            r.errors.append("anchor %s: no such body" % q)
    r.explanation = ("the %d label_with / in_context / merge_expected_found / merge bodies of the error types (and the LabelError trait "
                     "defaults) perform exactly the reviewed calls on the reviewed operands" % n)
    r.nontrivial = n
    r.samples = [{k: v} for k, v in list(comp.items())[:2]]
    r.require_floor(n, facts, "ERR-PROV.bodies", "error bookkeeping bodies compared")
    return r


# ====================================================================== CHAR-PROV (text::Char method bodies)

def rule_char_prov(facts):
    import builder_table as BT
    r = RuleResult("CHAR-PROV")
    comp = {}
    for b in facts.bodies:
        if b["kind"] == "Closure" or b.get("impl_trait") != "text::Char":
            continue
        if b["name"] in ("is_newline", "is_inline_whitespace", "digit_zero"):
            continue   # literal tables: rule CHAR-SIB (order-insensitive)
        import rules_text
        import nf as _nf
        eff = effects_nf(facts, b)
        lit_bodies = [b]
        for _, _, t_, f_ in calls(b):          # literals of the sibling impl a method delegates to belong to the method
            cb_ = _NF[id(facts)].local_body(_nf._callee_id(f_))
            if cb_ is not None and cb_.get("impl_trait") == "text::Char" and cb_ is not b:
                lit_bodies.append(cb_)
        lits = sorted({"%s:%r" % (k, (chr(v) if isinstance(v, int) else v)) for x in lit_bodies for k, v in rules_text.body_literals(x)})
        comp[b["qname"]] = sorted(eff + (["literals %s" % ",".join(lits)] if lits else []))
    n = 0
    for q, got in sorted(comp.items()):
        n += 1
        want = BT.CHAR_METHODS.get(q)
        ok = want is not None and sorted(want) == got
        r.ob(ok)
        if not ok:
            b = facts.by_qname[q][0]
            r.violations.append(V("CHAR-PROV", q, "character classification",
                                  "%s must perform exactly the reviewed classification calls on the reviewed operands: computed %s, expected %s"
                                  % (q, got, want), *loc(b)))
    for q in BT.CHAR_METHODS:
        if q not in comp:
            r.errors.append("anchor %s: no such Char method" % q)
    r.explanation = "%d text::Char method bodies (is_whitespace, is_digit, is_ident_*, to_ascii for char / u8 / &Grapheme) match the reviewed call provenance" % n
    r.nontrivial = n
    r.info = {"computed": comp}
    r.require_floor(n, facts, "CHAR-PROV.methods", "Char method bodies")
    return r

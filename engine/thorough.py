"""Thorough tier: the same rules on the other feature configurations (+ witnesses / self-tests
registered per property)."""
import os

import props

EXTRA_CONFIGS = ["nodefault", "nightly"]      # `all` and `default` are the quick tier


def prefetch(configs=None):
    """Extract the facts of the given configurations concurrently (each is one `cargo check`)."""
    import concurrent.futures as cf
    import facts as factsmod
    configs = configs or EXTRA_CONFIGS
    with cf.ThreadPoolExecutor(len(configs)) as ex:
        list(ex.map(lambda c: factsmod.extract(c), configs))


def on_config(pid, rule_names, cfg):
    rs = props.eval_rules(rule_names, cfg, pid)
    for r in rs:
        r.rule = "%s@%s" % (r.rule, cfg)
        for v in r.violations:
            v.detail = "[feature configuration `%s`] %s" % (cfg, v.detail)
    return rs


def extra(pid, rule_names, base_clean=True):
    res = []
    prefetch()
    import rules_witness as RW
    if any(pid in ps for ps in RW.WITNESS_PROPS.values()):
        res.append(RW.rule_witness(pid))
    # the self-test compares patched copies of the current tree with the tree itself: meaningless when the tree already violates
    if base_clean and not os.environ.get("VERIF_NO_SELFTEST") and not os.environ.get("VERIF_REPO"):
        import selftest
        res.append(selftest.rule_selftest(pid))
    for cfg in EXTRA_CONFIGS:
        res.extend(on_config(pid, rule_names, cfg))
    return res

"""Thorough tier: the same rules on the other feature configurations (+ witnesses / self-tests
registered per property)."""
import props

EXTRA_CONFIGS = ["default", "nodefault", "nightly"]


def extra(pid, rule_names):
    res = []
    for cfg in EXTRA_CONFIGS:
        rs = props.eval_rules(rule_names, cfg, pid)
        for r in rs:
            r.rule = "%s@%s" % (r.rule, cfg)
            for v in r.violations:
                v.instance = "%s [config %s]" % (v.instance, cfg)
        res.extend(rs)
    return res

//! chumsky-facts-driver: a `rustc_private` driver that type-checks the crate exactly as the
//! real build does (it *is* rustc) and, for the crate named by `VERIF_CRATE` (default
//! `chumsky`), dumps a JSON fact base: MIR bodies (post drop elaboration, polymorphic),
//! ADTs, impls, statics, fn signatures.  Zero cargo dependencies.
//!
//! Invoked through `RUSTC_WORKSPACE_WRAPPER`: argv = [driver, rustc, rustc-args...].
#![feature(rustc_private)]

extern crate rustc_abi;
extern crate rustc_driver;
extern crate rustc_hir;
extern crate rustc_interface;
extern crate rustc_middle;
extern crate rustc_span;

use rustc_driver::{Callbacks, Compilation};
use rustc_hir::def::DefKind;
use rustc_hir::def_id::{DefId, LocalDefId, LOCAL_CRATE};
use rustc_interface::interface::Compiler;
use rustc_middle::mir::{
    self, AggregateKind, BorrowKind, Operand, Place, ProjectionElem, Rvalue, StatementKind,
    TerminatorKind, UnwindAction,
};
use rustc_middle::ty::print::with_no_trimmed_paths;
use rustc_middle::ty::{self, GenericArgsRef, Instance, Ty, TyCtxt, TypingEnv};
use rustc_span::Span;
use std::collections::HashSet;
use std::fmt::Write as _;

// ---------------------------------------------------------------- JSON helpers

fn esc(s: &str) -> String {
    let mut o = String::with_capacity(s.len() + 2);
    o.push('"');
    for c in s.chars() {
        match c {
            '"' => o.push_str("\\\""),
            '\\' => o.push_str("\\\\"),
            '\n' => o.push_str("\\n"),
            '\r' => o.push_str("\\r"),
            '\t' => o.push_str("\\t"),
            c if (c as u32) < 0x20 => {
                let _ = write!(o, "\\u{:04x}", c as u32);
            }
            c => o.push(c),
        }
    }
    o.push('"');
    o
}

fn opt_s(s: Option<String>) -> String {
    match s {
        Some(s) => esc(&s),
        None => "null".into(),
    }
}

fn arr(items: Vec<String>) -> String {
    let mut o = String::from("[");
    for (i, it) in items.iter().enumerate() {
        if i > 0 {
            o.push(',');
        }
        o.push_str(it);
    }
    o.push(']');
    o
}

fn obj(items: Vec<(&str, String)>) -> String {
    let mut o = String::from("{");
    for (i, (k, v)) in items.iter().enumerate() {
        if i > 0 {
            o.push(',');
        }
        o.push_str(&esc(k));
        o.push(':');
        o.push_str(v);
    }
    o.push('}');
    o
}

// ---------------------------------------------------------------- extraction

struct Cx<'tcx> {
    tcx: TyCtxt<'tcx>,
}

impl<'tcx> Cx<'tcx> {
    fn ty_s(&self, t: Ty<'tcx>) -> String {
        with_no_trimmed_paths!(t.to_string())
    }

    fn path(&self, d: DefId) -> String {
        with_no_trimmed_paths!(self.tcx.def_path_str(d))
    }

    fn line(&self, sp: Span) -> (String, usize, usize) {
        let sm = self.tcx.sess.source_map();
        let lo = sm.lookup_char_pos(sp.lo());
        let hi = sm.lookup_char_pos(sp.hi());
        (format!("{}", lo.file.name.prefer_local_unconditionally()), lo.line, hi.line)
    }

    fn args_s(&self, args: GenericArgsRef<'tcx>) -> String {
        arr(args
            .iter()
            .map(|a| esc(&with_no_trimmed_paths!(a.to_string())))
            .collect())
    }

    /// (self ty string, trait path, self ADT path) of the impl/trait that contains `d`, if any.
    fn container(&self, d: DefId) -> Vec<(&'static str, String)> {
        let tcx = self.tcx;
        let mut out = vec![];
        let mut cur = d;
        // climb through closures to the enclosing fn-like item
        loop {
            match tcx.def_kind(cur) {
                DefKind::Closure | DefKind::InlineConst | DefKind::AnonConst => {
                    cur = tcx.parent(cur);
                }
                _ => break,
            }
        }
        out.push(("owner_fn", esc(&self.path(cur))));
        if matches!(tcx.def_kind(cur), DefKind::AssocFn | DefKind::AssocConst { .. } | DefKind::AssocTy) {
            let p = tcx.parent(cur);
            match tcx.def_kind(p) {
                DefKind::Impl { of_trait } => {
                    let self_ty = tcx.type_of(p).instantiate_identity().skip_norm_wip();
                    out.push(("impl_self", esc(&self.ty_s(self_ty))));
                    if let ty::Adt(adt, _) = self_ty.kind() {
                        out.push(("impl_self_adt", esc(&self.path(adt.did()))));
                    }
                    if of_trait {
                        let tr = tcx.impl_trait_ref(p).instantiate_identity().skip_norm_wip();
                        out.push(("impl_trait", esc(&self.path(tr.def_id))));
                        out.push(("impl_trait_full", esc(&with_no_trimmed_paths!(tr.to_string()))));
                    }
                    out.push(("impl_path", esc(&self.path(p))));
                }
                DefKind::Trait => {
                    out.push(("in_trait", esc(&self.path(p))));
                }
                _ => {}
            }
        }
        out
    }

    fn place(&self, body: &mir::Body<'tcx>, p: &Place<'tcx>) -> String {
        let tcx = self.tcx;
        let mut projs = vec![];
        for (base, elem) in p.iter_projections() {
            let s = match elem {
                ProjectionElem::Deref => esc("*"),
                ProjectionElem::Field(idx, fty) => {
                    let bty = base.ty(&body.local_decls, tcx);
                    let mut name = None;
                    let mut of = None;
                    if let ty::Adt(adt, _) = bty.ty.kind() {
                        of = Some(self.path(adt.did()));
                        let vidx = bty.variant_index.unwrap_or(rustc_abi::FIRST_VARIANT);
                        if vidx.as_usize() < adt.variants().len() {
                            let v = adt.variant(vidx);
                            if idx.as_usize() < v.fields.len() {
                                name = Some(v.fields[idx].name.to_string());
                            }
                        }
                    }
                    obj(vec![
                        ("f", format!("{}", idx.as_usize())),
                        ("n", opt_s(name)),
                        ("a", opt_s(of)),
                        ("t", esc(&self.ty_s(fty))),
                    ])
                }
                ProjectionElem::Index(l) => obj(vec![("i", format!("{}", l.as_usize()))]),
                ProjectionElem::ConstantIndex { offset, from_end, .. } => obj(vec![
                    ("ci", format!("{}", offset)),
                    ("from_end", format!("{}", from_end)),
                ]),
                ProjectionElem::Subslice { from, to, from_end } => obj(vec![
                    ("sub", format!("[{},{}]", from, to)),
                    ("from_end", format!("{}", from_end)),
                ]),
                ProjectionElem::Downcast(sym, vidx) => obj(vec![
                    ("dc", opt_s(sym.map(|s| s.to_string()))),
                    ("v", format!("{}", vidx.as_usize())),
                ]),
                ProjectionElem::OpaqueCast(_) => esc("oc"),
                ProjectionElem::UnwrapUnsafeBinder(_) => esc("ub"),
            };
            projs.push(s);
        }
        obj(vec![("l", format!("{}", p.local.as_usize())), ("p", arr(projs))])
    }

    fn callee(&self, caller: DefId, def_id: DefId, args: GenericArgsRef<'tcx>) -> String {
        let tcx = self.tcx;
        let mut items = vec![
            ("path", esc(&self.path(def_id))),
            ("name", esc(&tcx.item_name(def_id).to_string())),
            ("args", self.args_s(args)),
            ("local", format!("{}", def_id.is_local())),
            ("krate", esc(&tcx.crate_name(def_id.krate).to_string())),
            ("kind", esc(&format!("{:?}", tcx.def_kind(def_id)))),
        ];
        if matches!(tcx.def_kind(def_id), DefKind::AssocFn) {
            let p = tcx.parent(def_id);
            match tcx.def_kind(p) {
                DefKind::Trait => {
                    items.push(("trait", esc(&self.path(p))));
                    if args.len() > 0 {
                        if let Some(t) = args[0].as_type() {
                            items.push(("self_ty", esc(&self.ty_s(t))));
                        }
                    }
                }
                DefKind::Impl { of_trait } => {
                    let self_ty = tcx.type_of(p).instantiate(tcx, args).skip_norm_wip();
                    items.push(("self_ty", esc(&self.ty_s(self_ty))));
                    if let ty::Adt(adt, _) = self_ty.kind() {
                        items.push(("self_adt", esc(&self.path(adt.did()))));
                    }
                    if of_trait {
                        let tr = tcx.impl_trait_ref(p).instantiate(tcx, args).skip_norm_wip();
                        items.push(("trait", esc(&self.path(tr.def_id))));
                    }
                }
                _ => {}
            }
        }
        // Try to resolve trait calls to the impl that will run.
        let env = TypingEnv::post_analysis(tcx, caller);
        let resolved = std::panic::catch_unwind(std::panic::AssertUnwindSafe(|| {
            Instance::try_resolve(tcx, env, def_id, args)
        }));
        if let Ok(Ok(Some(inst))) = resolved {
            let rid = inst.def_id();
            if rid != def_id {
                let mut r = vec![
                    ("path", esc(&self.path(rid))),
                    ("kind", esc(&format!("{:?}", tcx.def_kind(rid)))),
                    ("local", format!("{}", rid.is_local())),
                ];
                if matches!(tcx.def_kind(rid), DefKind::AssocFn) {
                    let p = tcx.parent(rid);
                    if let DefKind::Impl { .. } = tcx.def_kind(p) {
                        let self_ty = tcx.type_of(p).instantiate(tcx, inst.args).skip_norm_wip();
                        r.push(("self_ty", esc(&self.ty_s(self_ty))));
                        if let ty::Adt(adt, _) = self_ty.kind() {
                            r.push(("self_adt", esc(&self.path(adt.did()))));
                        }
                    }
                }
                items.push(("resolved", obj(r)));
            }
            let shim = match inst.def {
                ty::InstanceKind::Item(_) => "item",
                ty::InstanceKind::Virtual(..) => "virtual",
                ty::InstanceKind::ClosureOnceShim { .. } => "closure_once",
                ty::InstanceKind::FnPtrShim(..) => "fnptr",
                ty::InstanceKind::Intrinsic(_) => "intrinsic",
                _ => "other",
            };
            items.push(("inst", esc(shim)));
        }
        obj(items)
    }

    fn operand(&self, caller: DefId, body: &mir::Body<'tcx>, o: &Operand<'tcx>) -> String {
        match o {
            Operand::Copy(p) => obj(vec![("c", self.place(body, p))]),
            Operand::Move(p) => obj(vec![("m", self.place(body, p))]),
            Operand::Constant(c) => {
                let ty = c.const_.ty();
                let mut items = vec![];
                match ty.kind() {
                    ty::FnDef(d, a) => items.push(("fn", self.callee(caller, *d, a))),
                    _ => {
                        items.push(("ty", esc(&self.ty_s(ty))));
                        let mut v = with_no_trimmed_paths!(format!("{}", c.const_));
                        // promoted / associated constants: show the evaluated value when it does not depend on generics
                        if let mir::Const::Unevaluated(uv, _) = c.const_ {
                            if let Some(pi) = uv.promoted {
                                items.push(("promoted", format!("{}", pi.as_usize())));
                            }
                        }
                        if let mir::Const::Unevaluated(..) = c.const_ {
                            let tcx = self.tcx;
                            let env = TypingEnv::post_analysis(tcx, caller);
                            let r = std::panic::catch_unwind(std::panic::AssertUnwindSafe(|| {
                                c.const_.eval(tcx, env, c.span).ok().map(|val| {
                                    let mut s = with_no_trimmed_paths!(format!("{}", mir::Const::Val(val, ty)));
                                    // a reference to a promoted allocation: append its bytes
                                    if let mir::ConstValue::Scalar(mir::interpret::Scalar::Ptr(p, _)) = val {
                                        let (prov, off) = p.prov_and_relative_offset();
                                        if let Some(mir::interpret::GlobalAlloc::Memory(a)) = tcx.try_get_global_alloc(prov.alloc_id()) {
                                            let a = a.inner();
                                            let n = a.len();
                                            if n <= 64 {
                                                let bytes = a.inspect_with_uninit_and_ptr_outside_interpreter(0..n);
                                                let hex: Vec<String> = bytes.iter().map(|b| format!("{:02x}", b)).collect();
                                                s = format!("promoted&[{}]+{}:{}", hex.join(""), off.bytes(), self.ty_s(ty));
                                            }
                                        }
                                    }
                                    s
                                })
                            }));
                            if let Ok(Some(s)) = r {
                                v = s;
                            }
                        }
                        items.push(("val", esc(&v)));
                    }
                }
                obj(vec![("k", obj(items))])
            }
            _ => obj(vec![("k", obj(vec![("ty", esc("?")), ("val", esc("runtime_checks"))]))]),
        }
    }

    fn rvalue(&self, caller: DefId, body: &mir::Body<'tcx>, r: &Rvalue<'tcx>) -> String {
        let tcx = self.tcx;
        match r {
            Rvalue::Use(o, ..) => obj(vec![("k", esc("use")), ("op", self.operand(caller, body, o))]),
            Rvalue::Repeat(o, n) => obj(vec![
                ("k", esc("repeat")),
                ("op", self.operand(caller, body, o)),
                ("n", esc(&format!("{}", n))),
            ]),
            Rvalue::Ref(_, bk, p) => obj(vec![
                ("k", esc("ref")),
                ("mut", format!("{}", matches!(bk, BorrowKind::Mut { .. }))),
                ("fake", format!("{}", matches!(bk, BorrowKind::Fake(_)))),
                ("place", self.place(body, p)),
            ]),
            Rvalue::ThreadLocalRef(d) => obj(vec![("k", esc("tlref")), ("def", esc(&self.path(*d)))]),
            Rvalue::RawPtr(k, p) => obj(vec![
                ("k", esc("rawptr")),
                ("mut", format!("{}", matches!(k, mir::RawPtrKind::Mut))),
                ("place", self.place(body, p)),
            ]),
            Rvalue::Cast(ck, o, t) => obj(vec![
                ("k", esc("cast")),
                ("ck", esc(&format!("{:?}", ck))),
                ("op", self.operand(caller, body, o)),
                ("ty", esc(&self.ty_s(*t))),
                ("from_ty", esc(&self.ty_s(o.ty(&body.local_decls, tcx)))),
            ]),
            Rvalue::BinaryOp(op, ab) => obj(vec![
                ("k", esc("bin")),
                ("op", esc(&format!("{:?}", op))),
                ("a", self.operand(caller, body, &ab.0)),
                ("b", self.operand(caller, body, &ab.1)),
            ]),
            Rvalue::UnaryOp(op, a) => obj(vec![
                ("k", esc("un")),
                ("op", esc(&format!("{:?}", op))),
                ("a", self.operand(caller, body, a)),
            ]),
            Rvalue::Discriminant(p) => {
                let pty = p.ty(&body.local_decls, tcx).ty;
                obj(vec![
                    ("k", esc("discr")),
                    ("place", self.place(body, p)),
                    ("of_ty", esc(&self.ty_s(pty))),
                    ("variants", self.variants_of(pty)),
                ])
            }
            Rvalue::Aggregate(ak, ops) => {
                let mut items = vec![("k", esc("agg"))];
                match &**ak {
                    AggregateKind::Array(t) => {
                        items.push(("ak", esc("array")));
                        items.push(("elem_ty", esc(&self.ty_s(*t))));
                    }
                    AggregateKind::Tuple => items.push(("ak", esc("tuple"))),
                    AggregateKind::Adt(d, v, a, _, _) => {
                        items.push(("ak", esc("adt")));
                        items.push(("adt", esc(&self.path(*d))));
                        let adt = tcx.adt_def(*d);
                        let var = adt.variant(*v);
                        items.push(("variant", esc(&var.name.to_string())));
                        items.push(("vidx", format!("{}", v.as_usize())));
                        items.push(("args", self.args_s(a)));
                        items.push((
                            "fields",
                            arr(var.fields.iter().map(|f| esc(&f.name.to_string())).collect()),
                        ));
                    }
                    AggregateKind::Closure(d, a) => {
                        items.push(("ak", esc("closure")));
                        items.push(("closure", esc(&self.path(*d))));
                        items.push(("closure_key", esc(&self.key(*d))));
                        items.push(("args", self.args_s(a)));
                    }
                    AggregateKind::Coroutine(d, _) | AggregateKind::CoroutineClosure(d, _) => {
                        items.push(("ak", esc("coroutine")));
                        items.push(("closure", esc(&self.path(*d))));
                    }
                    AggregateKind::RawPtr(t, _) => {
                        items.push(("ak", esc("rawptr")));
                        items.push(("elem_ty", esc(&self.ty_s(*t))));
                    }
                }
                items.push(("ops", arr(ops.iter().map(|o| self.operand(caller, body, o)).collect())));
                obj(items)
            }
            Rvalue::CopyForDeref(p) => obj(vec![("k", esc("copyderef")), ("place", self.place(body, p))]),
            Rvalue::WrapUnsafeBinder(o, _) => {
                obj(vec![("k", esc("use")), ("op", self.operand(caller, body, o))])
            }
        }
    }

    fn variants_of(&self, t: Ty<'tcx>) -> String {
        match t.kind() {
            ty::Adt(adt, _) if adt.is_enum() => arr(adt
                .variants()
                .iter_enumerated()
                .map(|(i, v)| {
                    let d = adt.discriminant_for_variant(self.tcx, i).val;
                    arr(vec![format!("{}", d), esc(&v.name.to_string())])
                })
                .collect()),
            _ => "[]".into(),
        }
    }

    fn unwind(&self, u: &UnwindAction) -> String {
        match u {
            UnwindAction::Cleanup(bb) => format!("{}", bb.as_usize()),
            _ => "null".into(),
        }
    }

    fn key(&self, d: DefId) -> String {
        self.tcx.def_path(d).to_string_no_crate_verbose()
    }

    fn body(&self, ldid: LocalDefId) -> Option<String> {
        let tcx = self.tcx;
        let did = ldid.to_def_id();
        let kind = tcx.def_kind(did);
        if !matches!(kind, DefKind::Fn | DefKind::AssocFn | DefKind::Closure) {
            return None;
        }
        if !tcx.is_mir_available(did) {
            return None;
        }
        let body: &mir::Body<'tcx> = tcx.optimized_mir(did);
        let (file, lo, hi) = self.line(body.span);
        let mut items: Vec<(&str, String)> = vec![
            ("path", esc(&self.path(did))),
            ("key", esc(&self.key(did))),
            ("kind", esc(&format!("{:?}", kind))),
            (
                "name",
                esc(&match kind {
                    DefKind::Closure => "{closure}".to_string(),
                    _ => tcx.item_name(did).to_string(),
                }),
            ),
            ("parent_key", esc(&self.key(tcx.parent(did)))),
            ("file", esc(&file)),
            ("line", format!("{}", lo)),
            ("line_end", format!("{}", hi)),
            ("from_expansion", format!("{}", body.span.from_expansion())),
            ("arg_count", format!("{}", body.arg_count)),
        ];
        items.extend(self.container(did));
        if matches!(kind, DefKind::Fn | DefKind::AssocFn) {
            let sig = tcx.fn_sig(did).instantiate_identity().skip_norm_wip();
            items.push(("sig", esc(&with_no_trimmed_paths!(sig.to_string()))));
            items.push(("unsafe_fn", format!("{}", !sig.safety().is_safe())));
            let vis = tcx.visibility(did);
            items.push(("public", format!("{}", vis.is_public())));
            let gens = tcx.generics_of(did);
            let mut names = vec![];
            let mut g = Some(gens);
            let mut stack = vec![];
            while let Some(gg) = g {
                stack.push(gg);
                g = gg.parent.map(|p| tcx.generics_of(p));
            }
            for gg in stack.iter().rev() {
                for p in &gg.own_params {
                    names.push(esc(&p.name.to_string()));
                }
            }
            items.push(("generics", arr(names)));
            let preds = tcx.predicates_of(did).instantiate_identity(tcx);
            let ps: Vec<String> = preds
                .predicates
                .iter()
                .map(|p| esc(&with_no_trimmed_paths!(p.clone().skip_norm_wip().to_string())))
                .collect();
            items.push(("preds", arr(ps)));
        }
        if kind == DefKind::Closure {
            let caps = tcx.closure_captures(ldid);
            let names: Vec<String> = caps
                .iter()
                .map(|c| esc(&c.to_string(tcx)))
                .collect();
            items.push(("upvars", arr(names)));
        }
        // locals
        let mut names: Vec<Option<String>> = vec![None; body.local_decls.len()];
        for vdi in &body.var_debug_info {
            if let mir::VarDebugInfoContents::Place(p) = &vdi.value {
                if p.projection.is_empty() {
                    names[p.local.as_usize()] = Some(vdi.name.to_string());
                }
            }
        }
        let locals: Vec<String> = body
            .local_decls
            .iter_enumerated()
            .map(|(l, d)| {
                obj(vec![
                    ("ty", esc(&self.ty_s(d.ty))),
                    ("name", opt_s(names[l.as_usize()].clone())),
                ])
            })
            .collect();
        items.push(("locals", arr(locals)));
        // debug names that are projections (closure upvars)
        let dbg: Vec<String> = body
            .var_debug_info
            .iter()
            .filter_map(|vdi| match &vdi.value {
                mir::VarDebugInfoContents::Place(p) if !p.projection.is_empty() => Some(obj(vec![
                    ("name", esc(&vdi.name.to_string())),
                    ("place", self.place(body, p)),
                ])),
                _ => None,
            })
            .collect();
        items.push(("debug_places", arr(dbg)));

        let mut blocks = vec![];
        for (_bb, data) in body.basic_blocks.iter_enumerated() {
            let mut stmts = vec![];
            for st in &data.statements {
                let ln = self.line(st.source_info.span).1;
                match &st.kind {
                    StatementKind::Assign(b) => {
                        let (p, r) = &**b;
                        stmts.push(obj(vec![
                            ("k", esc("assign")),
                            ("place", self.place(body, p)),
                            ("rv", self.rvalue(did, body, r)),
                            ("line", format!("{}", ln)),
                        ]));
                    }
                    StatementKind::SetDiscriminant { place, variant_index } => {
                        stmts.push(obj(vec![
                            ("k", esc("setdiscr")),
                            ("place", self.place(body, place)),
                            ("v", format!("{}", variant_index.as_usize())),
                            ("line", format!("{}", ln)),
                        ]));
                    }
                    StatementKind::Intrinsic(i) => {
                        let s = match &**i {
                            mir::NonDivergingIntrinsic::Assume(_) => "assume",
                            mir::NonDivergingIntrinsic::CopyNonOverlapping(_) => "copy_nonoverlapping",
                        };
                        stmts.push(obj(vec![
                            ("k", esc("intrinsic")),
                            ("name", esc(s)),
                            ("line", format!("{}", ln)),
                        ]));
                    }
                    StatementKind::StorageDead(l) => {
                        stmts.push(obj(vec![("k", esc("dead")), ("l", format!("{}", l.as_usize()))]));
                    }
                    _ => {}
                }
            }
            let term = data.terminator();
            let ln = self.line(term.source_info.span).1;
            let exp = term.source_info.span.from_expansion();
            let t = match &term.kind {
                TerminatorKind::Goto { target } => {
                    obj(vec![("k", esc("goto")), ("t", format!("{}", target.as_usize()))])
                }
                TerminatorKind::SwitchInt { discr, targets } => {
                    let ts: Vec<String> = targets
                        .iter()
                        .map(|(v, bb)| format!("[{},{}]", v, bb.as_usize()))
                        .collect();
                    obj(vec![
                        ("k", esc("switch")),
                        ("op", self.operand(did, body, discr)),
                        ("op_ty", esc(&self.ty_s(discr.ty(&body.local_decls, tcx)))),
                        ("targets", arr(ts)),
                        ("otherwise", format!("{}", targets.otherwise().as_usize())),
                    ])
                }
                TerminatorKind::UnwindResume => obj(vec![("k", esc("resume"))]),
                TerminatorKind::UnwindTerminate(_) => obj(vec![("k", esc("terminate"))]),
                TerminatorKind::Return => obj(vec![("k", esc("ret"))]),
                TerminatorKind::Unreachable => obj(vec![("k", esc("unreachable"))]),
                TerminatorKind::Drop { place, target, unwind, .. } => obj(vec![
                    ("k", esc("drop")),
                    ("place", self.place(body, place)),
                    ("place_ty", esc(&self.ty_s(place.ty(&body.local_decls, tcx).ty))),
                    ("t", format!("{}", target.as_usize())),
                    ("unwind", self.unwind(unwind)),
                ]),
                TerminatorKind::Call { func, args, destination, target, unwind, .. } => {
                    let a: Vec<String> = args
                        .iter()
                        .map(|s| {
                            obj(vec![
                                ("op", self.operand(did, body, &s.node)),
                                ("ty", esc(&self.ty_s(s.node.ty(&body.local_decls, tcx)))),
                            ])
                        })
                        .collect();
                    obj(vec![
                        ("k", esc("call")),
                        ("func", self.operand(did, body, func)),
                        ("args", arr(a)),
                        ("dest", self.place(body, destination)),
                        ("dest_ty", esc(&self.ty_s(destination.ty(&body.local_decls, tcx).ty))),
                        (
                            "t",
                            match target {
                                Some(bb) => format!("{}", bb.as_usize()),
                                None => "null".into(),
                            },
                        ),
                        ("unwind", self.unwind(unwind)),
                    ])
                }
                TerminatorKind::TailCall { .. } => obj(vec![("k", esc("tailcall"))]),
                TerminatorKind::Assert { cond, expected, msg, target, unwind } => obj(vec![
                    ("k", esc("assert")),
                    ("cond", self.operand(did, body, cond)),
                    ("expected", format!("{}", expected)),
                    ("msg", esc(&format!("{:?}", msg))),
                    ("t", format!("{}", target.as_usize())),
                    ("unwind", self.unwind(unwind)),
                ]),
                TerminatorKind::FalseEdge { real_target, .. } => {
                    obj(vec![("k", esc("goto")), ("t", format!("{}", real_target.as_usize()))])
                }
                TerminatorKind::FalseUnwind { real_target, .. } => {
                    obj(vec![("k", esc("goto")), ("t", format!("{}", real_target.as_usize()))])
                }
                _ => obj(vec![("k", esc("other"))]),
            };
            blocks.push(obj(vec![
                ("stmts", arr(stmts)),
                ("term", t),
                ("line", format!("{}", ln)),
                ("exp", format!("{}", exp)),
                ("cleanup", format!("{}", data.is_cleanup)),
            ]));
        }
        items.push(("blocks", arr(blocks)));
        // literal constants of the promoted bodies (array / string tables are promoted out of the function)
        let proms = tcx.promoted_mir(ldid);
        let mut plist = vec![];
        for pb in proms.iter() {
            let mut consts = vec![];
            for data in pb.basic_blocks.iter() {
                for st in &data.statements {
                    if let StatementKind::Assign(b) = &st.kind {
                        let (_, rv) = &**b;
                        let mut push = |o: &Operand<'tcx>| {
                            if let Operand::Constant(c) = o {
                                consts.push(esc(&with_no_trimmed_paths!(format!("{}", c.const_))));
                            }
                        };
                        match rv {
                            Rvalue::Use(o, ..) | Rvalue::Repeat(o, _) | Rvalue::Cast(_, o, _) | Rvalue::UnaryOp(_, o) => push(o),
                            Rvalue::BinaryOp(_, ab) => {
                                push(&ab.0);
                                push(&ab.1);
                            }
                            Rvalue::Aggregate(_, ops) => {
                                for o in ops.iter() {
                                    push(o);
                                }
                            }
                            _ => {}
                        }
                    }
                }
            }
            plist.push(arr(consts));
        }
        items.push(("promoted_consts", arr(plist)));
        Some(obj(items))
    }

    /// Deep interior-mutability scan: paths (field chains) that reach `UnsafeCell`, not
    /// looking through raw pointers / `NonNull` / references, but looking into generic
    /// arguments of ADTs (so `Rc<RefCell<T>>` is found through the `RefCell<T>` argument).
    fn interior_mut(&self, t: Ty<'tcx>, depth: usize, seen: &mut HashSet<String>, trail: &str, out: &mut Vec<String>) {
        let tcx = self.tcx;
        if depth > 8 {
            return;
        }
        match t.kind() {
            ty::Adt(adt, args) => {
                if adt.is_unsafe_cell() {
                    out.push(format!("{} -> UnsafeCell", trail));
                    return;
                }
                let k = self.ty_s(t);
                if !seen.insert(k) {
                    return;
                }
                let p = self.path(adt.did());
                if p.contains("NonNull") || p.contains("PhantomData") {
                    return;
                }
                for a in args.iter() {
                    if let Some(at) = a.as_type() {
                        self.interior_mut(at, depth + 1, seen, &format!("{} <{}>", trail, self.ty_s(at)), out);
                    }
                }
                for v in adt.variants() {
                    for f in &v.fields {
                        let ft = f.ty(tcx, args);
                        self.interior_mut(ft, depth + 1, seen, &format!("{} .{}:{}", trail, f.name, self.ty_s(ft)), out);
                    }
                }
            }
            ty::Tuple(ts) => {
                for (i, e) in ts.iter().enumerate() {
                    self.interior_mut(e, depth + 1, seen, &format!("{} .{}", trail, i), out);
                }
            }
            ty::Array(e, _) | ty::Slice(e) => self.interior_mut(*e, depth + 1, seen, trail, out),
            _ => {}
        }
    }

    fn adt(&self, did: DefId) -> String {
        let tcx = self.tcx;
        let adt = tcx.adt_def(did);
        let self_ty = tcx.type_of(did).instantiate_identity().skip_norm_wip();
        let args = match self_ty.kind() {
            ty::Adt(_, a) => *a,
            _ => ty::GenericArgs::empty(),
        };
        let mut variants = vec![];
        for v in adt.variants() {
            let fields: Vec<String> = v
                .fields
                .iter()
                .map(|f| {
                    let ft = f.ty(tcx, args);
                    obj(vec![
                        ("name", esc(&f.name.to_string())),
                        ("ty", esc(&self.ty_s(ft))),
                        ("public", format!("{}", f.vis.is_public())),
                        ("vis", esc(&format!("{:?}", f.vis))),
                    ])
                })
                .collect();
            variants.push(obj(vec![("name", esc(&v.name.to_string())), ("fields", arr(fields))]));
        }
        let mut im = vec![];
        let mut seen = HashSet::new();
        self.interior_mut(self_ty, 0, &mut seen, "", &mut im);
        let (file, lo, _) = self.line(tcx.def_span(did));
        obj(vec![
            ("path", esc(&self.path(did))),
            ("self_ty", esc(&self.ty_s(self_ty))),
            ("kind", esc(if adt.is_enum() { "enum" } else if adt.is_union() { "union" } else { "struct" })),
            ("public", format!("{}", tcx.visibility(did).is_public())),
            ("variants", arr(variants)),
            ("interior_mut", arr(im.iter().map(|s| esc(s)).collect())),
            ("file", esc(&file)),
            ("line", format!("{}", lo)),
        ])
    }

    fn impl_(&self, did: DefId) -> String {
        let tcx = self.tcx;
        let self_ty = tcx.type_of(did).instantiate_identity().skip_norm_wip();
        let mut items = vec![
            ("path", esc(&self.path(did))),
            ("key", esc(&self.key(did))),
            ("self_ty", esc(&self.ty_s(self_ty))),
        ];
        if let ty::Adt(adt, _) = self_ty.kind() {
            items.push(("self_adt", esc(&self.path(adt.did()))));
        }
        if let DefKind::Impl { of_trait: true } = tcx.def_kind(did) {
            let tr = tcx.impl_trait_ref(did).instantiate_identity().skip_norm_wip();
            items.push(("trait", esc(&self.path(tr.def_id))));
            items.push(("trait_full", esc(&with_no_trimmed_paths!(tr.to_string()))));
        }
        let assoc: Vec<String> = tcx
            .associated_items(did)
            .in_definition_order()
            .map(|a| {
                let mut v = vec![
                    ("name", esc(&a.opt_name().map(|n| n.to_string()).unwrap_or_else(|| "<anon>".into()))),
                    ("kind", esc(&format!("{:?}", tcx.def_kind(a.def_id)))),
                    ("key", esc(&self.key(a.def_id))),
                ];
                if matches!(tcx.def_kind(a.def_id), DefKind::AssocTy) {
                    let t = tcx.type_of(a.def_id).instantiate_identity().skip_norm_wip();
                    v.push(("ty", esc(&self.ty_s(t))));
                }
                obj(v)
            })
            .collect();
        items.push(("items", arr(assoc)));
        let (file, lo, _) = self.line(tcx.def_span(did));
        items.push(("file", esc(&file)));
        items.push(("line", format!("{}", lo)));
        obj(items)
    }
}

struct Cb;

impl Callbacks for Cb {
    fn after_analysis<'tcx>(&mut self, _c: &Compiler, tcx: TyCtxt<'tcx>) -> Compilation {
        let want = std::env::var("VERIF_CRATE").unwrap_or_else(|_| "chumsky".into());
        let name = tcx.crate_name(LOCAL_CRATE).to_string();
        let out = match std::env::var("VERIF_FACTS_OUT") {
            Ok(o) => o,
            Err(_) => return Compilation::Continue,
        };
        if name != want {
            return Compilation::Continue;
        }
        // only the library target (not build scripts, tests, examples)
        if tcx.sess.opts.test {
            return Compilation::Continue;
        }
        let cx = Cx { tcx };
        let mut bodies = vec![];
        let mut adts = vec![];
        let mut impls = vec![];
        let mut statics = vec![];
        let mut traits = vec![];
        let mut opaques = vec![];
        let mut keys: Vec<LocalDefId> = tcx.mir_keys(()).iter().copied().collect();
        keys.sort_by_key(|k| cx.key(k.to_def_id()));
        for ldid in keys {
            if let Some(b) = cx.body(ldid) {
                bodies.push(b);
            }
        }
        for ldid in tcx.hir_crate_items(()).definitions() {
            let did = ldid.to_def_id();
            match tcx.def_kind(did) {
                DefKind::Struct | DefKind::Enum | DefKind::Union => adts.push(cx.adt(did)),
                DefKind::Impl { .. } => impls.push(cx.impl_(did)),
                DefKind::Static { mutability, .. } => {
                    let t = tcx.type_of(did).instantiate_identity().skip_norm_wip();
                    let mut im = vec![];
                    let mut seen = HashSet::new();
                    cx.interior_mut(t, 0, &mut seen, "", &mut im);
                    let tl = tcx.is_thread_local_static(did);
                    statics.push(obj(vec![
                        ("path", esc(&cx.path(did))),
                        ("ty", esc(&cx.ty_s(t))),
                        ("mutable", format!("{}", mutability.is_mut())),
                        ("thread_local", format!("{}", tl)),
                        ("interior_mut", arr(im.iter().map(|s| esc(s)).collect())),
                    ]));
                }
                DefKind::Trait => {
                    let assoc: Vec<String> = tcx
                        .associated_items(did)
                        .in_definition_order()
                        .map(|a| {
                            obj(vec![
                                ("name", esc(&a.opt_name().map(|n| n.to_string()).unwrap_or_else(|| "<anon>".into()))),
                                ("kind", esc(&format!("{:?}", tcx.def_kind(a.def_id)))),
                                ("has_default", format!("{}", a.defaultness(tcx).has_value())),
                            ])
                        })
                        .collect();
                    traits.push(obj(vec![
                        ("path", esc(&cx.path(did))),
                        ("public", format!("{}", tcx.visibility(did).is_public())),
                        ("items", arr(assoc)),
                    ]));
                }
                DefKind::OpaqueTy => {
                    let t = tcx.type_of(did).instantiate_identity().skip_norm_wip();
                    opaques.push(obj(vec![
                        ("path", esc(&cx.path(did))),
                        ("key", esc(&cx.key(did))),
                        ("hidden", esc(&cx.ty_s(t))),
                    ]));
                }
                _ => {}
            }
        }
        let cfgs: Vec<String> = tcx
            .sess
            .config
            .iter()
            .filter_map(|(k, v)| {
                if k.as_str() == "feature" {
                    v.map(|v| esc(&v.to_string()))
                } else {
                    None
                }
            })
            .collect();
        let mut cfgs = cfgs;
        cfgs.sort();
        let nb = bodies.len();
        let doc = obj(vec![
            ("crate", esc(&name)),
            ("features", arr(cfgs)),
            ("n_bodies", format!("{}", nb)),
            ("bodies", arr(bodies)),
            ("adts", arr(adts)),
            ("impls", arr(impls)),
            ("statics", arr(statics)),
            ("traits", arr(traits)),
            ("opaques", arr(opaques)),
        ]);
        let tmp = format!("{}.tmp.{}", out, std::process::id());
        std::fs::write(&tmp, doc).expect("write facts");
        std::fs::rename(&tmp, &out).expect("rename facts");
        eprintln!("chumsky-facts-driver: wrote {} bodies to {}", nb, out);
        Compilation::Continue
    }
}

fn main() {
    let mut args: Vec<String> = std::env::args().collect();
    // RUSTC_WORKSPACE_WRAPPER: argv[1] is the path of the real rustc; drop it.
    if args.len() > 1 && (args[1].ends_with("rustc") || args[1].contains("/rustc")) {
        args.remove(1);
    }
    rustc_driver::run_compiler(&args, &mut Cb);
}

use chumsky::prelude::*;
use chumsky::error::EmptyErr;

type R<'a> = extra::Err<Rich<'a, char>>;

fn emitter<'a>() -> impl Parser<'a, &'a str, char, R<'a>> + Clone {
    just::<_, _, R>('a').validate(|c, e, em| {
        em.emit(Rich::custom(e.span(), "emitted"));
        c
    })
}

// #1 AndIs::go  (KEEP, LIFO; C05)
#[test]
fn f01_and_is_keeps_emissions_of_kept_output() {
    let plain = emitter().parse("a");
    let with = emitter().and_is(any()).parse("a");
    assert_eq!(plain.errors().count(), 1);
    assert_eq!(with.output(), Some(&'a'));
    assert_eq!(with.errors().count(), 1, "and_is dropped the emission of the kept output");
}

// #2 Rewind::go (KEEP; C05)
#[test]
fn f02_rewind_keeps_emissions_of_kept_output() {
    let with = emitter().rewind().then(just('a')).parse("a");
    assert_eq!(with.output(), Some(&('a', 'a')));
    assert_eq!(with.errors().count(), 1, "rewind dropped the emission of the kept output");
}

// #3 Memoized::go (ALT-LINEAR, PFAIL; C06/C11/C20)
#[test]
fn f03_memoized_failure_keeps_primary_error() {
    let p = just::<_, _, R>('a').memoized().map_err(|e| e);
    let r = p.parse("b"); // panicked at combinator.rs "Can't fail!" unwrap
    assert!(r.has_errors());
    let q = just::<_, _, R>('a').memoized().recover_with(via_parser(any()));
    let r = q.parse("b");
    assert_eq!(r.errors().count(), 1);
    let plain = just::<_, _, R>('a').parse("b");
    let memo = just::<_, _, R>('a').memoized().parse("b");
    assert_eq!(
        plain.errors().map(|e| e.span().clone()).collect::<Vec<_>>(),
        memo.errors().map(|e| e.span().clone()).collect::<Vec<_>>(),
        "memoized() reports a fabricated error"
    );
}

// #4 InputRef::add_alt_err zero-sized fast path (PFAIL; C20)
#[test]
fn f04_zero_sized_error_is_recorded() {
    let p = empty::<&str, extra::Default>()
        .try_map(|_, _| Err::<(), _>(EmptyErr::default()))
        .recover_with(via_parser(empty()));
    let _ = p.parse(""); // panicked at recovery.rs "Can't fail!" unwrap
    let q = custom::<_, &str, (), extra::Default>(|_| Err(EmptyErr::default())).map_err(|e| e);
    assert!(q.parse("").has_errors());
}

// #6 TryMap::go child-failure path drops the sheltered alt (ALT-LINEAR; C06)
#[test]
fn f06_try_map_child_failure_keeps_furthest_error() {
    let plain = just::<_, _, R>("ab").to(()).or(just("x").to(())).parse("ac");
    let with = just::<_, _, R>("ab")
        .to(())
        .or(just("x").try_map(|_, _| Ok(())))
        .parse("ac");
    let sp = |r: &ParseResult<(), Rich<char>>| r.errors().map(|e| *e.span()).collect::<Vec<_>>();
    assert_eq!(sp(&plain), sp(&with), "try_map lost the furthest error");
}

// #7 MapErrWithState::go child-success path drops the sheltered alt (ALT-LINEAR; C06/C17)
#[test]
fn f07_map_err_success_keeps_pending_error() {
    let plain = just::<_, _, R>("abc")
        .to(())
        .or(just("a").to(()))
        .then(just("x"))
        .parse("abz");
    let with = just::<_, _, R>("abc")
        .to(())
        .or(just("a").map_err(|e| e).to(()))
        .then(just("x"))
        .parse("abz");
    let sp = |r: &ParseResult<((), &str), Rich<char>>| r.errors().map(|e| *e.span()).collect::<Vec<_>>();
    assert_eq!(sp(&plain), sp(&with), "map_err lost the furthest error");
}

// #8 TryMap::go success path re-homes the child's pending alt (ALT-POS; C06)
#[test]
fn f08_try_map_success_keeps_alt_position() {
    let plain = just::<_, _, R>("ab")
        .or_not()
        .ignore_then(just('a'))
        .then(just('x'))
        .parse("ac");
    let with = just::<_, _, R>("ab")
        .or_not()
        .ignore_then(just('a'))
        .try_map(|c, _| Ok(c))
        .then(just('x'))
        .parse("ac");
    let ex = |r: &ParseResult<(char, char), Rich<char>>| {
        let mut v = r
            .errors()
            .flat_map(|e| e.expected().map(|x| format!("{:?}", x)).collect::<Vec<_>>())
            .collect::<Vec<_>>();
        v.sort();
        v
    };
    assert_eq!(ex(&plain), ex(&with), "try_map lost an expected item");
}

// #10 CollectExactly::go iterator-exhausted path returns Err without an alt (PFAIL; C20/C06)
#[test]
fn f10_collect_exactly_short_records_error() {
    let p = any::<&str, R>()
        .repeated()
        .at_most(2)
        .collect_exactly::<[char; 3]>()
        .map_err(|e| e);
    let r = p.parse("abc"); // panicked at combinator.rs "Can't fail!" unwrap
    assert!(r.has_errors());
}

// #8b Memoized::go hit path replays the stored error at `before` instead of its own position (ALT-POS; C06/C11)
#[test]
fn f08b_memo_hit_replays_error_at_its_own_position() {
    let p = just::<_, _, R>("ab");
    let plain = (&p).not().or_not().ignore_then((&p).labelled("L")).parse("ac");
    let m = just::<_, _, R>("ab").memoized();
    let memo = (&m).not().or_not().ignore_then((&m).labelled("L")).parse("ac");
    let d = |r: &ParseResult<&str, Rich<char>>| r.errors().map(|e| format!("{:?}", e)).collect::<Vec<_>>();
    assert_eq!(d(&plain), d(&memo), "a memo hit reports the failure at the wrong position");
}

// #5 (C19, rule MAYBEUNINIT): `group([p; N])` leaks the outputs already produced when a later
// element fails (the initialised prefix of the MaybeUninit array is never dropped).
#[test]
fn f05_group_array_drops_prefix_on_failure() {
    use std::sync::atomic::{AtomicIsize, Ordering};
    static LIVE: AtomicIsize = AtomicIsize::new(0);
    struct D;
    impl D {
        fn new() -> D {
            LIVE.fetch_add(1, Ordering::SeqCst);
            D
        }
    }
    impl Drop for D {
        fn drop(&mut self) {
            LIVE.fetch_sub(1, Ordering::SeqCst);
        }
    }
    let mk = |c: char| just::<_, &str, extra::Default>(c).map(|_| D::new()).boxed();
    let p = group([mk('a'), mk('b'), mk('c')]);
    // third element fails: the two values already produced must be dropped by the time parse returns
    let r = p.parse("abx");
    assert!(r.has_errors());
    drop(r);
    assert_eq!(LIVE.load(Ordering::SeqCst), 0, "values produced by group([..;3]) before the failure were leaked");
    // success path: all three handed to the caller, then dropped by the caller
    let r = p.parse("abc");
    assert!(!r.has_errors());
    drop(r);
    assert_eq!(LIVE.load(Ordering::SeqCst), 0);
}

// #9 (C11, rule MEMO-KEY) -- KNOWN FINDING, not repaired: the memo key identifies a parser by the address of
// `self.parser`; two distinct zero-sized memoised parsers can live at the same address and then share entries.
// `cargo test -- --ignored f09` fails on the current tree (that is the demonstration).
#[test]
#[ignore]
fn f09_zero_sized_memoized_parsers_do_not_collide() {
    let plain = any::<&str, extra::Default>().ignored().or(end());
    assert!(!plain.parse("").has_errors());
    let memo = any::<&str, extra::Default>().ignored().memoized().or(end().memoized());
    assert!(!memo.parse("").has_errors(), "memoized() changed acceptance: `any().ignored().memoized().or(end().memoized())` rejects \"\"");
}

use chumsky::prelude::*;
use chumsky::input::{Input, IterInput};

// tokens with gaps between their spans (whitespace skipped by a lexer)
fn toks() -> Vec<(char, SimpleSpan)> {
    vec![('a', (0..1).into()), ('b', (5..6).into()), ('c', (10..11).into())]
}

#[test]
fn mapped_empty_match_between_gapped_tokens() {
    let t = toks();
    let inp = t.as_slice().map((20..20).into(), |(t, s): &(char, SimpleSpan)| (t, s));
    let p = just::<_, _, extra::Err<Rich<_, SimpleSpan>>>(&'a')
        .ignore_then(empty().to_span())
        .then_ignore(any().repeated());
    let s: SimpleSpan = p.parse(inp).into_result().unwrap();
    assert!(s.start <= s.end, "inverted span {:?}", s);
    assert!(s.start == s.end, "empty match with non-empty span {:?}", s);
    assert!(1 <= s.start && s.end <= 5, "not between the neighbours {:?}", s);
}

#[test]
fn mapped_empty_match_at_start() {
    let t = toks();
    let inp = t.as_slice().map((20..20).into(), |(t, s): &(char, SimpleSpan)| (t, s));
    let p = empty::<_, extra::Err<Rich<_, SimpleSpan>>>().to_span()
        .then_ignore(any().repeated());
    let s: SimpleSpan = p.parse(inp).into_result().unwrap();
    assert!(s.start == s.end, "empty match with non-empty span {:?}", s);
}

#[test]
fn iter_empty_match_between_gapped_tokens() {
    let inp = IterInput::new(toks().into_iter(), (20..20).into());
    let p = just::<_, _, extra::Err<Rich<_, SimpleSpan>>>('a')
        .ignore_then(empty().to_span())
        .then_ignore(just('b')).then_ignore(just('c'));
    let s: SimpleSpan = p.parse(inp).into_result().unwrap();
    assert!(s.start <= s.end, "inverted span {:?}", s);
    assert!(s.start == s.end);
}
#[test]
fn iter_empty_match_at_start() {
    let inp = IterInput::new(toks().into_iter(), (20..20).into());
    let p = empty::<_, extra::Err<Rich<_, SimpleSpan>>>().to_span()
        .then_ignore(just('a')).then_ignore(just('b')).then_ignore(just('c'));
    let s: SimpleSpan = p.parse(inp).into_result().unwrap();
    assert!(s.start == s.end, "empty match with non-empty span {:?}", s);
}

// Demonstration for the known finding MEMO-KEY|...|ctx-not-in-key (C11): the memo table is keyed by (position, parser address) only,
// but a parser's result also depends on the context it runs under (`configure`, `with_ctx`, `ignore_with_ctx`).  The same memoized
// parser tried at the same position under two different contexts gets the first context's failure replayed for the second.
// `cargo test --test memo_ctx -- --ignored` FAILS on the current tree (that is the demonstration); it is #[ignore]d so that the
// probe crate's ordinary run stays green.
use chumsky::prelude::*;

type Ex<'a> = extra::Full<EmptyErr, (), char>;

fn grammar<'a>(memo: bool) -> impl Parser<'a, &'a str, char, extra::Default> {
    // p matches exactly the character given by the context
    let p = just::<char, &'a str, Ex<'a>>('?').configure(|cfg, ctx: &char| cfg.seq(*ctx));
    let p: Boxed<'a, 'a, &'a str, char, Ex<'a>> = if memo { p.memoized().boxed() } else { p.boxed() };
    let with_a = empty::<&'a str, extra::Default>().to('a').ignore_with_ctx(p.clone());
    let with_b = empty::<&'a str, extra::Default>().to('b').ignore_with_ctx(p.clone());
    with_a.or(with_b)
}

#[test]
fn plain_grammar_accepts_b() {
    assert_eq!(grammar(false).parse("b").into_result(), Ok('b'));
}

#[test]
#[ignore]
fn memoized_parser_under_two_contexts() {
    assert_eq!(grammar(true).parse("b").into_result(), Ok('b'),
               "memoized() changed acceptance: the failure recorded under context 'a' was replayed under context 'b'");
}

#!/usr/bin/env python3
"""Behaviour-preserving refactors (selftest/refactors/*.diff) must leave every check silent.
For each: apply in a scratch worktree, `cargo test --workspace --lib` (must compile, 40 tests pass),
VERIF_REPO=<worktree> ./check --all (must report no VIOLATION / CHECKER-ERROR)."""
import os, re, subprocess, sys, shutil, tempfile
HERE = os.path.dirname(os.path.dirname(os.path.abspath(__file__)))
D = os.path.join(HERE, "selftest", "refactors")
wt = "/tmp/wt-refactor-run" + os.environ.get("REFACTOR_WT", "")
if not os.path.isdir(wt):
    subprocess.check_call(["git", "-C", "/repo", "worktree", "add", "--detach", wt, "HEAD"], stdout=subprocess.DEVNULL, stderr=subprocess.DEVNULL)
head = subprocess.check_output(["git", "-C", "/repo", "rev-parse", "HEAD"], text=True).strip()
subprocess.check_call(["git", "-C", wt, "checkout", "-q", "--detach", head])
want = sys.argv[1:]
bad = 0
for fn in sorted(os.listdir(D)):
    if not fn.endswith(".diff") or (want and not any(w in fn for w in want)):
        continue
    subprocess.check_call(["git", "-C", wt, "checkout", "-q", "--", "."])
    r = subprocess.run(["git", "-C", wt, "apply", os.path.join(D, fn)], capture_output=True, text=True)
    if r.returncode:
        print(fn, "PATCH DOES NOT APPLY", r.stderr[:200]); bad += 1; continue
    t = subprocess.run(["cargo", "test", "--workspace", "--lib", "--offline", "--features", "pratt memoization extension regex"], cwd=wt, capture_output=True, text=True,
                       env=dict(os.environ, CARGO_NET_OFFLINE="true"))
    m = re.search(r"test result: (\w+)\. (\d+) passed; (\d+) failed", t.stdout)
    tests = m.group(0) if m else "BUILD FAILED: " + t.stderr[-300:]
    env = dict(os.environ, VERIF_REPO=wt, VERIF_EVIDENCE_DIR="/tmp/refactor-evidence/%s" % fn)
    p = subprocess.run([os.path.join(HERE, "check"), "--all"], cwd=HERE, env=env, capture_output=True, text=True)
    viol = sorted(set(re.findall(r"VIOLATION property=(\S+)", p.stdout)))
    errs = [l for l in p.stdout.split("\n") if l.startswith("CHECKER-ERROR")]
    detail = [l.strip() for l in p.stdout.split("\n") if l.startswith("  rule=")][:3]
    ok = not viol and not errs and m and m.group(3) == "0"
    if not ok:
        bad += 1
    print("%-40s %s | tests: %s | violations: %s %s %s" % (fn, "SILENT" if ok else "ALARM ", tests, viol, errs[:2], detail), flush=True)
subprocess.check_call(["git", "-C", wt, "checkout", "-q", "--", "."])
sys.exit(1 if bad else 0)

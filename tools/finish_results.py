#!/usr/bin/env python3
"""tools/finish_results.py <seedrun-result.json>: write seeded/RESULTS.json (the seed x property matrix of the last complete sweep,
produced by tools/run_seeds.py: each patch applied in a scratch worktree of /repo HEAD, VERIF_REPO=<worktree> ./check --all) and
refresh `checks_run` in every seeded/<id>/meta.json."""
import json, os, sys
HERE = os.path.dirname(os.path.dirname(os.path.abspath(__file__)))
res = json.load(open(sys.argv[1]))
S = os.path.join(HERE, "seeded")
out = {}
own = 0
for name in sorted(os.listdir(S)):
    d = os.path.join(S, name)
    if not os.path.isdir(d):
        continue
    r = res.get(name)
    if r is None:
        print("no result for", name)
        continue
    viol = r.get("violations", {})
    out[name] = {"reported_by": sorted(viol), "own_property": name.split("-")[0] in viol,
                 "rule_keys": {q: sorted(set("|".join(x.split("|")[:2]) for x in ks))[:6] for q, ks in viol.items()},
                 "checker_errors": len(r.get("checker_errors", []))}
    own += out[name]["own_property"]
    m = json.load(open(os.path.join(d, "meta.json")))
    m["checks_run"] = {"cmd": "tools/run_seeds.py (git apply in a scratch worktree of /repo HEAD; VERIF_REPO=<worktree> ./check --all)",
                       "violation_reported_by": sorted(viol), "rule_keys": out[name]["rule_keys"]}
    json.dump(m, open(os.path.join(d, "meta.json"), "w"), indent=1)
json.dump(out, open(os.path.join(S, "RESULTS.json"), "w"), indent=1, sort_keys=True)
print("%d seeds, %d reported under their own property; not: %s" % (len(out), own, [k for k, v in out.items() if not v["own_property"]]))

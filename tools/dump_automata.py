#!/usr/bin/env python3
"""Print the automata computed from /repo's current MIR in contract syntax (for review / evidence)."""
import os, re, sys
HERE = os.path.dirname(os.path.dirname(os.path.abspath(__file__)))
sys.path.insert(0, os.path.join(HERE, "engine")); sys.path.insert(0, os.path.join(HERE, "spec"))
sys.setrecursionlimit(20000)
import facts as F, protocol as P, contracts as C
cfg = sys.argv[1] if len(sys.argv) > 1 else "all"
pat = sys.argv[2] if len(sys.argv) > 2 else ""
f = F.load(cfg)
r = P.ProtocolRun(f).run()
for u in sorted(r.I.edges):
    if pat and not re.search(pat, u):
        continue
    print(u + ":")
    print(C.dump(C.computed_edges(r.I.edges[u])))
for u, m in r.errors:
    print("## ANALYSIS ERROR", u, m, file=sys.stderr)

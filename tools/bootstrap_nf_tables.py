#!/usr/bin/env python3
"""Print the SPAN_PROV / SPAN_IMPL reference tables in normal form (engine/nf.py) computed on the CURRENT /repo tree, union over the
feature configurations given.  Only to be run by hand on the reviewed tree; the output is read against the source before it replaces
spec/input_table.py entries."""
import os, sys, pprint
HERE = os.path.dirname(os.path.dirname(os.path.abspath(__file__)))
sys.path.insert(0, os.path.join(HERE, "engine")); sys.path.insert(0, os.path.join(HERE, "spec"))
sys.setrecursionlimit(20000)
import facts as F, rules_input as RI
sp, si = {}, {}
for cfg in sys.argv[1:] or ["all"]:
    facts = F.load(cfg)
    r = RI.rule_span_prov(facts)
    for k, v in r.info["computed"].items():
        if k in sp and sp[k] != v:
            print("CONFIG-DEPENDENT", cfg, k, v, sp[k])
        sp[k] = v
    r = RI.rule_span_impl(facts)
    for k, v in r.info["computed"].items():
        if k in si and si[k] != v:
            print("CONFIG-DEPENDENT", cfg, k, v, si[k])
        si[k] = v
print("SPAN_PROV = " + pprint.pformat(sp, width=200))
print("SPAN_IMPL = " + pprint.pformat(si, width=200))

#!/usr/bin/env python3
"""Which function bodies of the chumsky crate does no rule read?  (development tool, not a registered check)
   tools/coverage_map.py [config]
Runs every rule once with body dictionaries that record reads of their MIR (`blocks`), then lists, per source file,
the non-closure bodies whose MIR no rule looked at.  A seeded change inside such a body cannot be noticed."""
import os, sys, re, json, collections
os.environ["VERIF_COVERAGE"] = "1"
HERE = os.path.dirname(os.path.dirname(os.path.abspath(__file__)))
sys.path.insert(0, os.path.join(HERE, "engine")); sys.path.insert(0, os.path.join(HERE, "spec"))
sys.setrecursionlimit(20000)
import facts as F, props, rules_contracts as RC, rules_grammar as RG, rules_protocol as RP
cfg = sys.argv[1] if len(sys.argv) > 1 else "all"
facts = F.load(cfg)
names = []
for rs in props.PROP_RULES.values():
    for n in rs:
        if n not in names:
            names.append(n)
for n in names:
    F.CURRENT_RULE[0] = n
    try:
        if n == "K":
            RC.rule_contracts(None, cfg)
        elif n == "GRAMMAR":
            RG.rule_grammar(facts)
        else:
            props.eval_rules([n], cfg)
    except Exception as e:
        print("rule", n, "failed:", e)
# rules that sweep (almost) every body looking for one construct are inventories, not analyses of the body they pass over
nb = sum(1 for b in facts.bodies)
freq = collections.Counter(r for rs in F.TOUCHED.values() for r in rs)
SWEEP = {r for r, c in freq.items() if c > 0.5 * nb and r != "K"}   # K = the interpreter: it reads a body only to analyse it
print("sweeping rules (read > 50%% of all bodies, not counted as coverage): %s" % sorted(SWEEP))
derive = ("fmt", "clone", "eq", "ne", "hash", "assert_fields_are_eq", "cmp", "partial_cmp", "clone_from")
un = collections.defaultdict(list)
tot = collections.Counter(); cov = collections.Counter()
for b in facts.bodies:
    if dict.__getitem__(b, "kind") == "Closure":
        continue
    q = dict.__getitem__(b, "qname")
    if "serde" in q:
        continue
    f = dict.__getitem__(b, "file")
    tot[f] += 1
    if F.TOUCHED.get(dict.__getitem__(b, "key"), set()) - SWEEP:
        cov[f] += 1
    else:
        un[f].append((q, dict.__getitem__(b, "line"), dict.__getitem__(b, "name") in derive))
out = {}
for f in sorted(tot):
    print("%-22s bodies %4d  read by some rule %4d" % (f, tot[f], cov[f]))
    names_ = sorted(set(re.sub(r"<.*", "", q) + (" (derive-like)" if d else "") for q, _, d in un[f]))
    out[f] = names_
    for x in names_:
        print("      unread:", x)
json.dump(out, open("/tmp/coverage_map.json", "w"), indent=1)

#!/usr/bin/env python3
"""Final confirmation exactly as the brief prescribes: for every /verif/seeded/<id>: git -C /repo apply patch.diff;
run the registered quick command of the property it breaks (plus --all for the matrix); git -C /repo checkout -- .
Evidence is redirected (VERIF_EVIDENCE_DIR) so that the committed evidence stays that of the unchanged tree."""
import json, os, re, subprocess, sys
HERE = os.path.dirname(os.path.dirname(os.path.abspath(__file__)))
S = os.path.join(HERE, "seeded")
out = {}
assert subprocess.run(["git", "-C", "/repo", "status", "--porcelain", "--untracked-files=no"], capture_output=True, text=True).stdout.strip() == "", "/repo not clean"
for name in sorted(os.listdir(S)):
    if sys.argv[1:] and name not in sys.argv[1:]:
        continue
    pid = name.split("-")[0]
    patch = os.path.join(S, name, "patch.diff")
    try:
        subprocess.check_call(["git", "-C", "/repo", "apply", patch])
        env = dict(os.environ, VERIF_EVIDENCE_DIR="/tmp/confirm-evidence/%s" % name)
        p = subprocess.run([os.path.join(HERE, "check"), "--all"], cwd=HERE, env=env, capture_output=True, text=True)
    finally:
        subprocess.check_call(["git", "-C", "/repo", "checkout", "--", "."])
    viol = sorted(set(re.findall(r"VIOLATION property=(\S+)", p.stdout)))
    out[name] = viol
    print("%-7s own=%s %s" % (name, "YES" if pid in viol else "no ", viol), flush=True)
json.dump(out, open(os.path.join(HERE, "seeded", "RESULTS.json"), "w"), indent=1, sort_keys=True)

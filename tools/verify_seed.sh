#!/bin/bash
# verify_seed.sh <worktree> <seed-dir> <out.json>
# Confirms: patch applies; crate builds; the 40 pinned unit tests pass with the patch; the demo FAILS with
# the patch and PASSES without it.  (Scratch worktree only; never /repo.)
wt=$1; sd=$2; out=$3
cd "$wt" || exit 2
git reset -q --hard HEAD ; rm -rf tests/seeded_demo.rs
feat=$(python3 -c "import json,re,sys; m=json.load(open('$sd/meta.json')).get('demo_cmd',''); r=re.search(r'--features[ =]+(\"[^\"]+\"|\S+)',m); print(r.group(1).strip('\"') if r else '')")
fa=""; [ -n "$feat" ] && fa="--features $feat"
grep -q -- "--release" "$sd/meta.json" && fa="$fa --release"
git apply "$sd/patch.diff" || { echo '{"ok":false,"why":"patch does not apply"}' > "$out"; exit 1; }
export CARGO_NET_OFFLINE=true
lib=$(cargo test --workspace --lib --no-fail-fast --offline 2>&1 | grep "test result" | head -1)
mkdir -p tests; cp "$sd/demo.rs" tests/seeded_demo.rs
with=$(cargo test --offline $fa --test seeded_demo 2>&1 | grep "test result" | head -1)
git checkout -q -- src
without=$(cargo test --offline $fa --test seeded_demo 2>&1 | grep "test result" | head -1)
rm -f tests/seeded_demo.rs; rmdir tests 2>/dev/null
python3 - "$out" "$lib" "$with" "$without" "$feat" <<'PY'
import json,sys
out,lib,w,wo,feat=sys.argv[1:6]
ok = ("40 passed; 0 failed" in lib) and ("FAILED" in w or " 0 failed" not in w) and ("ok." in wo and " 0 failed" in wo)
json.dump({"ok":ok,"lib_with_patch":lib.strip(),"demo_with_patch":w.strip(),"demo_without_patch":wo.strip(),"features":feat},open(out,"w"),indent=1)
print(out, "OK" if ok else "NOT-CONFIRMED")
PY

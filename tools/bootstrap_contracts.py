#!/usr/bin/env python3
"""One-time bootstrap: write spec/contracts/<group>.txt from the automata computed on the CURRENT tree.
The files are then reviewed by hand against the property statements (PEG reading) and become the oracle.
Tuple families (Choice/Group/operator tuples) are NOT written here: spec/contract_gen.py generates them."""
import os, re, sys
HERE = os.path.dirname(os.path.dirname(os.path.abspath(__file__)))
sys.path.insert(0, os.path.join(HERE, "engine")); sys.path.insert(0, os.path.join(HERE, "spec"))
sys.setrecursionlimit(20000)
import facts as F, protocol as P, contracts as C, contract_map as M
f = F.load("all")
r = P.ProtocolRun(f).run()
files = {}
unassigned = []
for u in sorted(r.I.edges):
    if M.skipped(u):
        continue
    if re.search(r"(Choice|Group)<\(", u) or re.match(r"^\(.*\)\[pratt::Operator\]", u):
        continue
    g, props = M.group_of(u)
    if g is None:
        unassigned.append(u)
        continue
    files.setdefault(g, []).append(u + ":\n" + C.dump(C.computed_edges(r.I.edges[u])) + "\n")
only = [a for a in sys.argv[1:] if not a.startswith("--")]
for g, blocks in files.items():
    if only and g not in only:
        continue
    p = os.path.join(HERE, "spec", "contracts", g + ".txt")
    if os.path.exists(p) and "--force" not in sys.argv:
        print("exists, not overwritten:", p)
        continue
    with open(p, "w") as fh:
        fh.write("# contract automata, group %s  (syntax: engine/contracts.py)\n\n" % g)
        fh.write("\n".join(blocks))
    print("wrote", p, len(blocks))
print("unassigned:", unassigned)

#!/usr/bin/env python3
"""tools/add_seed.py <Cxx-k> <agent-out-dir> <verify.json> <seedrun-result.json>
Import ONE confirmed seeded change (patch.diff, demo.rs, notes.txt written by an independent sub-agent) into seeded/<Cxx-k>/ and
merge its row into seeded/RESULTS.json without touching the rows of the last complete sweep."""
import json, os, shutil, sys
HERE = os.path.dirname(os.path.dirname(os.path.abspath(__file__)))
name, src, vf, rf = sys.argv[1:5]
v = json.load(open(vf))
if not v.get("ok"):
    sys.exit("NOT CONFIRMED: %s %s" % (name, v))
res = json.load(open(rf)).get(name)
if res is None or "error" in res:
    sys.exit("no check result for %s: %s" % (name, res))
d = os.path.join(HERE, "seeded", name)
os.makedirs(d, exist_ok=True)
shutil.copy(os.path.join(src, "patch.diff"), os.path.join(d, "patch.diff"))
shutil.copy(os.path.join(src, "demo.rs"), os.path.join(d, "demo.rs"))
notes = open(os.path.join(src, "notes.txt")).read().strip()
viol = res.get("violations", {})
keys = {q: sorted(set("|".join(x.split("|")[:2]) for x in ks))[:6] for q, ks in viol.items()}
feats = v.get("features") or ""
meta = {
    "id": name,
    "breaks_property": name.split("-")[0],
    "summary": notes,
    "origin": "written by an independent sub-agent that saw only the property text and a scratch worktree of /repo",
    "confirmed_by_me": {
        "how": "tools/verify_seed.sh in a scratch worktree: git apply; cargo test --workspace --lib (40 pinned tests); demo copied to tests/seeded_demo.rs and run with and without the patch",
        "pinned_unit_tests_with_patch": v.get("lib_with_patch"),
        "demo_with_patch": v.get("demo_with_patch"),
        "demo_without_patch": v.get("demo_without_patch"),
        "demo_cmd": "cargo test --offline %s--test seeded_demo" % (("--features %s " % feats) if feats else ""),
    },
    "checks_run": {"cmd": "tools/run_seeds.py (git apply in a scratch worktree of /repo HEAD; VERIF_REPO=<worktree> ./check --all)",
                   "violation_reported_by": sorted(viol), "rule_keys": keys},
}
json.dump(meta, open(os.path.join(d, "meta.json"), "w"), indent=1)
R = os.path.join(HERE, "seeded", "RESULTS.json")
out = json.load(open(R))
out[name] = {"reported_by": sorted(viol), "own_property": name.split("-")[0] in viol, "rule_keys": keys,
             "checker_errors": len(res.get("checker_errors", []))}
json.dump(out, open(R, "w"), indent=1, sort_keys=True)
print(name, "imported; reported by", sorted(viol), "own:", out[name]["own_property"])

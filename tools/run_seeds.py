#!/usr/bin/env python3
"""Run every claimed check against seeded changes (scratch worktrees, never /repo):
   tools/run_seeds.py <seed-root> [Cxx-k ...]     seed-root = /tmp/seedout or /verif/seeded
For each seed: `git apply` in /tmp/wt-seedrun-<n>, VERIF_REPO=<worktree> ./check --all, undo.  Prints the
property x seed matrix (which properties raise VIOLATION, by which rule keys)."""
import json, os, re, subprocess, sys, concurrent.futures as cf
HERE = os.path.dirname(os.path.dirname(os.path.abspath(__file__)))
root = sys.argv[1]
want = sys.argv[2:]
seeds = []
for p in sorted(os.listdir(root)):
    d = os.path.join(root, p)
    if not os.path.isdir(d):
        continue
    if os.path.exists(os.path.join(d, "patch.diff")):        # flat layout: /verif/seeded/C01-1/patch.diff
        if not want or p in want or p.split("-")[0] in want:
            seeds.append((p, d))
        continue
    for k in sorted(os.listdir(d)):
        if os.path.exists(os.path.join(d, k, "patch.diff")):
            name = "%s-%s" % (p, k)
            if not want or name in want or p in want:
                seeds.append((name, os.path.join(d, k)))
NW = int(os.environ.get("SEED_WORKERS", "5"))


def ensure_wt(i):
    wt = "/tmp/wt-seedrun-%d" % i
    if not os.path.isdir(wt):
        subprocess.check_call(["git", "-C", "/repo", "worktree", "add", "--detach", wt, "HEAD"], stdout=subprocess.DEVNULL, stderr=subprocess.DEVNULL)
    subprocess.check_call(["git", "-C", wt, "checkout", "-q", "--detach", subprocess.check_output(["git", "-C", "/repo", "rev-parse", "HEAD"], text=True).strip()])
    subprocess.check_call(["git", "-C", wt, "checkout", "-q", "--", "."])
    return wt


def run(args):
    i, (name, sd) = args
    wt = "/tmp/wt-seedrun-%d" % (i % NW)
    subprocess.check_call(["git", "-C", wt, "checkout", "-q", "--", "."])
    r = subprocess.run(["git", "-C", wt, "apply", os.path.join(sd, "patch.diff")], capture_output=True, text=True)
    if r.returncode != 0:
        return name, {"error": "patch does not apply to current HEAD: " + r.stderr[:200]}
    env = dict(os.environ, VERIF_REPO=wt, VERIF_EVIDENCE_DIR="/tmp/seedrun-evidence/%s" % name)
    p = subprocess.run([os.path.join(HERE, "check"), "--all"], cwd=HERE, env=env, capture_output=True, text=True)
    subprocess.check_call(["git", "-C", wt, "checkout", "-q", "--", "."])
    out = p.stdout
    viol = {}
    cur = None
    for ln in out.split("\n"):
        m = re.match(r"VIOLATION property=(\S+)", ln)
        if m:
            cur = m.group(1)
            viol.setdefault(cur, [])
        m = re.match(r"\s+rule=(\S+) function=(.*?) instance=(.*?) at ", ln)
        if m and cur:
            viol[cur].append("%s|%s|%s" % (m.group(1), m.group(2), m.group(3)))
    errs = [ln for ln in out.split("\n") if ln.startswith("CHECKER-ERROR")]
    return name, {"violations": viol, "checker_errors": errs[:5], "rc": p.returncode}


for i in range(NW):
    ensure_wt(i)
# seeds sharing a worker index must not overlap: run in rounds of NW
res = {}
for base in range(0, len(seeds), NW):
    chunk = list(enumerate(seeds[base:base + NW]))
    with cf.ThreadPoolExecutor(NW) as ex:
        for name, r in ex.map(run, chunk):
            res[name] = r
            own = name.split("-")[0]
            v = r.get("violations", {})
            print("%-7s own=%s caught_by=%s %s %s" % (name, "YES" if own in v else "no ", sorted(v), "ERR:" + r["error"] if "error" in r else "",
                                                    ("checker-errors:%d" % len(r.get("checker_errors", []))) if r.get("checker_errors") else ""), flush=True)
json.dump(res, open("/tmp/seedrun-result.json", "w"), indent=1)

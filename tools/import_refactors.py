#!/usr/bin/env python3
"""Copy sub-agent refactors /tmp/refout/<i>/<k>.diff into selftest/refactors/A<i>-<k>-<slug>.diff with a header line."""
import json, os, re, sys
HERE = os.path.dirname(os.path.dirname(os.path.abspath(__file__)))
root = sys.argv[1]
for i in sorted(os.listdir(root)):
    d = os.path.join(root, i)
    for fn in sorted(os.listdir(d)):
        if not fn.endswith(".diff"):
            continue
        k = fn[:-5]
        meta = json.load(open(os.path.join(d, k + ".json"))) if os.path.exists(os.path.join(d, k + ".json")) else {}
        site = meta.get("site", "")
        slug = re.sub(r"[^a-z0-9]+", "-", site.split(":")[-1].lower()).strip("-")[:30] or "x"
        dst = os.path.join(HERE, "selftest", "refactors", "A%s-%s-%s.diff" % (i, k, slug))
        if any(x.startswith("A%s-%s-" % (i, k)) for x in os.listdir(os.path.dirname(dst))):
            continue
        body = open(os.path.join(d, fn)).read()
        head = "# behaviour-preserving refactor written by an independent sub-agent (must stay silent): %s -- %s\n" % (site, (meta.get("summary") or "").replace("\n", " ")[:300])
        open(dst, "w").write(head + body)
        print("imported", os.path.basename(dst))

#!/usr/bin/env python3
"""Regenerate spec/floors.json from the CURRENT /repo tree.  Only to be run by hand on a tree
whose reports have been reviewed (the pinned tree + fix commits); never run by a check."""
import json, os, sys
HERE = os.path.dirname(os.path.dirname(os.path.abspath(__file__)))
sys.path.insert(0, os.path.join(HERE, "engine")); sys.path.insert(0, os.path.join(HERE, "spec"))
sys.setrecursionlimit(20000)
import floors, props
cfgs = sys.argv[1:] or ["all"]
out = dict(floors.FLOORS)
for cfg in cfgs:
    floors.MEASURED.clear()
    props.run_all_rules(cfg)
    out[cfg] = {k: v for (c, k), v in sorted(floors.MEASURED.items()) if c == cfg}
    print(cfg, len(out[cfg]), "floors")
json.dump(out, open(os.path.join(HERE, "spec", "floors.json"), "w"), indent=1, sort_keys=True)

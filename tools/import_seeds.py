#!/usr/bin/env python3
"""Copy confirmed seeded changes into /verif/seeded/<id>/ (patch.diff, demo.rs, meta.json).
   tools/import_seeds.py <seedout-root> <verify-dir> [seedrun-result.json]"""
import json, os, shutil, sys
HERE = os.path.dirname(os.path.dirname(os.path.abspath(__file__)))
root, vdir = sys.argv[1], sys.argv[2]
runres = json.load(open(sys.argv[3])) if len(sys.argv) > 3 and os.path.exists(sys.argv[3]) else {}
dst_root = os.path.join(HERE, "seeded")
n = 0
for p in sorted(os.listdir(root)):
    for k in sorted(os.listdir(os.path.join(root, p))):
        sd = os.path.join(root, p, k)
        if not os.path.exists(os.path.join(sd, "patch.diff")):
            continue
        name = "%s-%s" % (p, k)
        vf = os.path.join(vdir, name + ".json")
        if not os.path.exists(vf):
            print("not verified:", name); continue
        v = json.load(open(vf))
        if not v.get("ok"):
            print("NOT CONFIRMED, skipped:", name); continue
        d = os.path.join(dst_root, name)
        os.makedirs(d, exist_ok=True)
        shutil.copy(os.path.join(sd, "patch.diff"), os.path.join(d, "patch.diff"))
        shutil.copy(os.path.join(sd, "demo.rs"), os.path.join(d, "demo.rs"))
        m = json.load(open(os.path.join(sd, "meta.json")))
        feats = v.get("features") or ""
        meta = {
            "id": name,
            "breaks_property": p,
            "summary": m.get("summary"),
            "site": m.get("site"),
            "needs_to_manifest": m.get("needs"),
            "why_existing_tests_pass": m.get("why_existing_tests_pass"),
            "doctests_pass": m.get("doctests_pass"),
            "origin": "written by an independent sub-agent that saw only the property text and a scratch worktree of /repo",
            "confirmed_by_me": {
                "how": "tools/verify_seed.sh in a scratch worktree: git apply; cargo test --workspace --lib (40 pinned tests); demo copied to tests/seeded_demo.rs and run with and without the patch",
                "pinned_unit_tests_with_patch": v.get("lib_with_patch"),
                "demo_with_patch": v.get("demo_with_patch") or "process aborted (stack overflow) = failure",
                "demo_without_patch": v.get("demo_without_patch"),
                "demo_cmd": "cargo test --offline %s--test seeded_demo" % (("--features %s " % feats) if feats else ""),
            },
        }
        rr = runres.get(name)
        if rr is not None:
            meta["checks_run"] = {"cmd": "tools/run_seeds.py (git apply in a scratch worktree of /repo HEAD; VERIF_REPO=<worktree> ./check --all)",
                                  "violation_reported_by": sorted(rr.get("violations", {})),
                                  "rule_keys": {q: sorted(set(x.split("|")[0] + "|" + x.split("|")[1] for x in ks))[:6] for q, ks in rr.get("violations", {}).items()}}
        json.dump(meta, open(os.path.join(d, "meta.json"), "w"), indent=1)
        n += 1
print("imported", n)

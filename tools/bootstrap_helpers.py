#!/usr/bin/env python3
"""(Re)generate spec/helper_table_data.json from the CURRENT /repo tree for all feature configurations.  Only to be run by hand on a
reviewed tree; the result is then read against the source (every entry is a few-line function)."""
import json, os, sys
HERE = os.path.dirname(os.path.dirname(os.path.abspath(__file__)))
sys.path.insert(0, os.path.join(HERE, "engine")); sys.path.insert(0, os.path.join(HERE, "spec"))
sys.setrecursionlimit(20000)
import facts as F, rules_helpers as RH
tab = {}
for cfg in ("all", "default", "nodefault", "nightly"):
    f = F.load(cfg)
    for g in RH.GROUPS:
        for b in RH.bodies_of(f, g):
            e = tab.setdefault(b["uname"], {"group": g, "sig": {}})
            e["sig"][cfg] = RH.signature(f, b)
out = {}
for k, e in sorted(tab.items()):
    sigs = e["sig"]
    base = sigs.get("all") or list(sigs.values())[0]
    o = {"group": e["group"], "sig": base, "configs": sorted(sigs)}
    ov = {c: s for c, s in sigs.items() if s != base}
    if ov:
        o["override"] = ov
    out[k] = o
json.dump(out, open(os.path.join(HERE, "spec", "helper_table_data.json"), "w"), indent=1, sort_keys=True)
print(len(out), "helper bodies;", sum(1 for o in out.values() if "override" in o), "with per-configuration overrides")

//! Probe call sites for MACRO-EXPAND (never executed; analysed as MIR).
use chumsky::prelude::*;

#[derive(Clone, PartialEq, Debug)]
pub enum Tok {
    Ident(u32),
    Num(u32),
    Other,
}

#[derive(Clone, PartialEq, Debug)]
pub enum Out {
    Guarded(u32),
    Fallthrough(u32),
    NumOut(u32),
}

/// The guard of the first arm: an opaque function so that the call is identifiable in the MIR of the expansion.
#[inline(never)]
pub fn probe_guard(x: &u32) -> bool {
    *x == 7
}

/// `select!` with a guarded arm followed by an unguarded arm of the same pattern: a token that matches the first pattern but
/// fails its guard must be offered to the later arms (match-guard semantics), not rejected.
pub fn select_probe<'a>() -> impl Parser<'a, &'a [Tok], Out> {
    select! {
        Tok::Ident(s) if probe_guard(&s) => Out::Guarded(s),
        Tok::Ident(s) => Out::Fallthrough(s),
        Tok::Num(n) => Out::NumOut(n),
    }
}

/// The same for `select_ref!` (tokens borrowed from the input).
pub fn select_ref_probe<'a>() -> impl Parser<'a, &'a [Tok], Out> {
    select_ref! {
        Tok::Ident(s) if probe_guard(s) => Out::Guarded(*s),
        Tok::Ident(s) => Out::Fallthrough(*s),
        Tok::Num(n) => Out::NumOut(*n),
    }
}

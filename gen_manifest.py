#!/usr/bin/env python3
"""Regenerates MANIFEST.json from spec/manifest_spec.py (single source of truth)."""
import json, os, sys
HERE = os.path.dirname(os.path.abspath(__file__))
sys.path.insert(0, os.path.join(HERE, "spec"))
sys.path.insert(0, os.path.join(HERE, "engine"))
import manifest_spec as M
import props


def rules_of(pid):
    out = []
    for n in props.PROP_RULES[pid]:
        out.append("CONTRACT" if n == "K" else (n[2:].rstrip("*") + ("(crate-wide)" if n.endswith("*") else "") if n.startswith("D:") else n))
    return ", ".join(out)

checks = []
for pid in sorted(M.CLAIMED):
    c = M.CLAIMED[pid]
    checks.append({
        "property_id": pid,
        "quick_cmd": "./check %s --tier quick" % pid,
        "thorough_cmd": "./check %s --tier thorough" % pid,
        "evidence_file": "/verif/evidence/%s.json" % pid,
        "replay_cmd_template": "./check %s --replay {path}" % pid,
        "engine": "mir-facts+rules",
        "level_claimed": {"category": "other", "text": c["text"] + " — rules evaluated by this check (DESIGN §4): " + rules_of(pid), "design_ref": c["design_ref"]},
        "level_note": c["note"],
        "technique": c["technique"],
    })
doc = {
    "version": 1,
    "setup_cmd": "cd /verif/driver && CARGO_NET_OFFLINE=true cargo build --release --offline",
    "hooks": {
        "guard": "chumsky_verif",
        "enable": "none needed: the analysis reads private items through the compiler (rustc_private driver); the guard name is reserved and unused",
        "baseline_off_cmd": "cd /repo && cargo test --workspace --no-fail-fast --offline",
        "source_commits": [],
        "add_only": True,
    },
    "engines": [
        {"name": "mir-facts+rules", "path": "/verif/engine", "serves_properties": sorted(M.CLAIMED),
         "kind_free_text": "static analysis: rustc_private driver dumps type-checked MIR/ADT/impl facts of /repo's current tree; "
                           "Python rule engine (path-sensitive typestate/provenance analysis of the InputRef protocol, "
                           "structural who-may-write / sibling / type-level rules); compile-fail witnesses"},
    ],
    "checks": checks,
    "not_applicable": [{"property_id": p, "reason": r} for p, r in sorted(M.NOT_APPLICABLE.items())],
    "notes": M.NOTES,
}
with open(os.path.join(HERE, "MANIFEST.json"), "w") as fh:
    json.dump(doc, fh, indent=1)
print("MANIFEST.json: %d checks, %d not_applicable" % (len(checks), len(doc["not_applicable"])))
